#!/bin/sh
# Run every registered check (default tier quick) and summarise.  Usage: ./run_all.sh [quick|thorough]
cd "$(dirname "$0")" || exit 2
tier=${1:-quick}
rc=0
for c in C01 C02 C03 C04 C05 C06 C07 C08 C09 C10 C11 C12 C13 C14 C15 C16 C17 C18 C19; do
  start=$(date +%s)
  out=$(./check $c --tier $tier 2>&1); e=$?
  end=$(date +%s)
  echo "$c exit=$e wall=$((end-start))s $(echo "$out" | grep -c '^VIOLATION') violations $(echo "$out" | grep -c '^KNOWN-FINDING') known"
  [ $e -ne 0 ] && { rc=1; echo "$out" | tail -5; }
done
exit $rc
