#!/bin/sh
# Import, verify and run every delivered-but-not-yet-imported seeded change of a wave directory.
# Usage: tools_wave.sh /tmp/wt2
cd "$(dirname "$0")" || exit 2
W=${1:-/tmp/wt2}
for d in "$W"/C*/seeded/*/; do
  [ -f "$d/patch.diff" ] || continue
  p=$(echo "$d" | sed -E 's#.*/(C[0-9]+)/seeded/([^/]+)/#\1_\2#')
  [ -f "seeded/$p/meta.json" ] && continue
  python3 tools_seeded.py import "$d" "$p"
  python3 tools_seeded.py verify "$p" | tail -1 || { echo "$p NOT VERIFIED"; continue; }
  python3 tools_seeded.py run "$p" 2>&1 | tail -1
done
