#!/bin/sh
# Apply behaviour-preserving patches to /repo, run the given quick checks (they must stay silent),
# restore /repo and the evidence files.  Usage: tools_benign.sh "<patch files>" C01 C02 ...
cd "$(dirname "$0")" || exit 2
patches=$1; shift
git -C /repo status --short | grep -q . && { echo "/repo not clean"; exit 2; }
sv=$(mktemp -d /tmp/evsv.XXXXXX); cp evidence/*.json "$sv"/
for p in $patches; do git -C /repo apply "$p" || { echo "APPLY FAILED $p"; git -C /repo checkout -- .; exit 3; }; done
(cd /repo && /venv/bin/python -m pytest -q -p no:cacheprovider 2>&1 | tail -1)
for c in "$@"; do
  out=$(./check "$c" --tier quick 2>&1); rc=$?
  echo "$c exit=$rc $(echo "$out" | grep -E 'VIOLATION|HARNESS|rror' | head -3 | cut -c1-300)"
done
git -C /repo checkout -- .
git -C /repo status --short | grep -q . && echo "WARNING /repo not clean after restore"
cp "$sv"/*.json evidence/; rm -rf "$sv"
