#!/usr/bin/env python3
"""Import, verify and evaluate seeded property-breaking changes.

  tools_seeded.py import  <src_dir> <name>     copy patch.diff/demo.py/notes.md into seeded/<name>/
  tools_seeded.py verify  <name>               scratch worktree: clean demo=0; patched: suite passes, demo=1
  tools_seeded.py run     <name> [checks...]   apply to /repo, run ./check <id> --tier quick, undo
  tools_seeded.py table                        print the detection table from the meta.json files

Never leaves /repo modified; the scratch worktree is removed after use.
"""
import json
import os
import re
import shutil
import subprocess
import sys
import time

ROOT = os.path.dirname(os.path.abspath(__file__))
SEEDED = os.path.join(ROOT, 'seeded')
PY = '/venv/bin/python'


def sh(cmd, cwd=None, env=None, timeout=3600):
    p = subprocess.run(cmd, shell=isinstance(cmd, str), cwd=cwd, env=env, timeout=timeout,
                       stdout=subprocess.PIPE, stderr=subprocess.STDOUT)
    return p.returncode, p.stdout.decode(errors='replace')


def meta_path(name):
    return os.path.join(SEEDED, name, 'meta.json')


def load_meta(name):
    p = meta_path(name)
    return json.load(open(p)) if os.path.exists(p) else {'name': name}


def save_meta(name, m):
    with open(meta_path(name), 'w') as fh:
        json.dump(m, fh, indent=1, sort_keys=True)
        fh.write('\n')


def do_import(src, name):
    dst = os.path.join(SEEDED, name)
    os.makedirs(dst, exist_ok=True)
    for fn in ('patch.diff', 'demo.py', 'notes.md'):
        if os.path.exists(os.path.join(src, fn)):
            shutil.copy(os.path.join(src, fn), os.path.join(dst, fn))
    m = load_meta(name)
    m['property'] = name.split('_')[0]
    m['source'] = 'independent sub-agent given only the property record and a scratch worktree'
    notes = os.path.join(dst, 'notes.md')
    if os.path.exists(notes):
        m['needs_to_manifest'] = open(notes).read().strip()[:1500]
    save_meta(name, m)


def do_verify(name):
    d = os.path.join(SEEDED, name)
    wt = '/tmp/verif_seed_wt_%d' % os.getpid()
    rc, out = sh(['git', '-C', '/repo', 'worktree', 'add', '-q', '--detach', wt, 'HEAD'])
    assert rc == 0, out
    m = load_meta(name)
    try:
        env = dict(os.environ, PYTHONPATH=wt, PYTHONDONTWRITEBYTECODE='1')
        rc0, out0 = sh([PY, os.path.join(d, 'demo.py')], cwd=wt, env=env, timeout=600)
        rca, outa = sh(['git', 'apply', os.path.join(d, 'patch.diff')], cwd=wt)
        rct, outt = sh([PY, '-m', 'pytest', '-q', '-p', 'no:cacheprovider', 'pyModelChecking/tests'],
                       cwd=wt, env=env, timeout=900)
        rc1, out1 = sh([PY, os.path.join(d, 'demo.py')], cwd=wt, env=env, timeout=600)
        tail = [l for l in outt.strip().splitlines() if 'passed' in l or 'failed' in l][-1:]
        m['verified'] = {
            'demo_clean_exit': rc0, 'patch_applies': rca == 0,
            'suite_with_patch': tail[0].strip() if tail else outt[-200:],
            'suite_ok': rct == 0, 'demo_patched_exit': rc1,
            'demo_patched_output': out1.strip()[-600:],
            'ok': rc0 == 0 and rca == 0 and rct == 0 and rc1 != 0,
            'ran': 'scratch worktree of /repo HEAD: demo (clean) -> git apply -> pytest -> demo',
        }
    finally:
        sh(['git', '-C', '/repo', 'worktree', 'remove', '--force', wt])
        shutil.rmtree(wt, ignore_errors=True)
    save_meta(name, m)
    print(name, 'verified:', m['verified']['ok'], m['verified']['suite_with_patch'],
          'demo clean/patched exit', rc0, rc1)
    return m['verified']['ok']


def do_run(name, checks, tier='quick'):
    d = os.path.join(SEEDED, name)
    m = load_meta(name)
    rc, out = sh(['git', '-C', '/repo', 'status', '--porcelain', '--untracked-files=no'])
    assert out.strip() == '', '/repo is dirty: ' + out
    rc, out = sh(['git', '-C', '/repo', 'apply', os.path.join(d, 'patch.diff')])
    assert rc == 0, out
    res = m.setdefault('checks', {})
    saved = {}
    for cid in checks:
        p = os.path.join(ROOT, 'evidence', cid + '.json')
        saved[cid] = open(p).read() if os.path.exists(p) else None
    try:
        for cid in checks:
            t0 = time.time()
            rc, out = sh(['./check', cid, '--tier', tier], cwd=ROOT, timeout=7200)
            vl = [l for l in out.splitlines() if l.startswith('VIOLATION')]
            first = None
            if vl:
                mm = re.search(r'replay=(\S+)', vl[0])
                if mm and os.path.exists(mm.group(1)):
                    art = json.load(open(mm.group(1)))
                    first = {'kind': art.get('kind'), 'case': art.get('case'),
                             'expected': art.get('expected'), 'got': art.get('got')}
            res[cid] = {'tier': tier, 'exit': rc, 'violations': len(vl), 'first': first,
                        'wall_s': round(time.time() - t0, 1),
                        'detected': rc == 1 and bool(vl),
                        'harness_error': rc not in (0, 1),
                        'stderr_tail': out[-400:] if rc not in (0, 1) else None}
            print(name, cid, 'exit', rc, 'violations', len(vl), 'wall', res[cid]['wall_s'],
                  '' if rc in (0, 1) else out[-300:])
    finally:
        sh(['git', '-C', '/repo', 'checkout', '--', '.'])
        # evidence files were rewritten by a run on a patched tree: put back what the last run on
        # the real tree wrote, so a seeded run is never mistaken for evidence of the real tree
        for cid in checks:
            p = os.path.join(ROOT, 'evidence', cid + '.json')
            if saved[cid] is not None:
                open(p, 'w').write(saved[cid])
            elif os.path.exists(p):
                os.remove(p)
    m['detected_by'] = sorted(c for c, r in res.items() if r.get('detected'))
    save_meta(name, m)


def table():
    rows = []
    for name in sorted(os.listdir(SEEDED)):
        if not os.path.exists(meta_path(name)):
            continue
        m = load_meta(name)
        v = m.get('verified', {})
        rows.append((name, 'ok' if v.get('ok') else 'NOT-VERIFIED', ','.join(m.get('detected_by', [])) or '-',
                     ','.join(sorted(c for c, r in m.get('checks', {}).items() if not r.get('detected'))) or '-'))
    for r in rows:
        print('%-10s %-13s detected_by=%-20s missed_by=%s' % r)


if __name__ == '__main__':
    cmd = sys.argv[1]
    if cmd == 'import':
        do_import(sys.argv[2], sys.argv[3])
    elif cmd == 'verify':
        sys.exit(0 if do_verify(sys.argv[2]) else 1)
    elif cmd == 'run':
        do_run(sys.argv[2], sys.argv[3:] or [sys.argv[2].split('_')[0]])
    elif cmd == 'table':
        table()
