#!/opt/veriftools/pyvenv/bin/python
"""Validate MANIFEST.json and evidence/*.json against the schemas in /root/.vp."""
import json, sys, glob, os
import jsonschema
root = os.path.dirname(os.path.abspath(__file__))
ok = True
def val(path, schema):
    global ok
    try:
        jsonschema.validate(json.load(open(path)), json.load(open(schema)))
        print('ok   ', path)
    except Exception as e:
        ok = False
        print('FAIL ', path, str(e)[:300])
val(os.path.join(root, 'MANIFEST.json'), '/root/.vp/MANIFEST.schema.json')
for p in sorted(glob.glob(os.path.join(root, 'evidence', '*.json'))):
    val(p, '/root/.vp/EVIDENCE.schema.json')
sys.exit(0 if ok else 1)
