"""Self-checks of the verification framework itself (not property checks).

Run:  cd /verif && /venv/bin/python -m pytest -q tests_selfcheck    (or python tests_selfcheck/test_framework.py)
"""
import itertools
import os
import sys

sys.path.insert(0, os.path.dirname(os.path.dirname(os.path.abspath(__file__))))

from mc import spaces, refsem, refparse, members, refbdd, fairmodel   # noqa: E402
from mc.refsem import Sem, ctl_sat, lasso_eval, lassos_from           # noqa: E402

P, Q, T, F_ = spaces.P, spaces.Q, spaces.T, spaces.F_


def test_enumerator_counts():
    assert [spaces.count_kripkes(n) for n in (1, 2, 3)] == [4, 144, 21952]
    assert len(list(spaces.kripkes(2))) == 144
    assert [len(spaces.kripke_reps(n)) for n in (1, 2, 3)] == [4, 78, 3836]
    assert [len(spaces.ctl_by_size(s)) for s in (0, 1, 2)] == [4, 140, 8820]
    assert sum(1 for _ in spaces.ctl_iter_size(3)) == 692860
    assert [len(spaces.path_by_size(s)) for s in (0, 1, 2)] == [4, 96, 4224]
    assert [len(spaces.path_by_size(s, spaces.LEAVES2)) for s in (0, 1, 2)] == [2, 28, 672]
    assert sum(1 for _ in spaces.path_iter_size(3, spaces.LEAVES2)) == 20048
    assert len(set(spaces.ctl_by_size(2))) == 8820
    assert [sum(1 for _ in spaces.digraphs(n)) for n in (0, 1, 2, 3)] == [1, 2, 16, 512]
    assert sum(1 for _ in spaces.graphs_total(4)) == 50625


def test_lasso_eval_literal_cases():
    # word: p, p, (q)^w      positions 0,1 stem; loop = [2]
    w = [{'p'}, {'p'}, {'q'}]

    def sat(h, i):
        if h[0] == 'or':
            return any(sat(x, i) for x in h[1:])
        if h[0] == 'not':
            return not sat(h[1], i)
        return h[0] == 't' or (h[0] == 'ap' and h[1] in w[i])
    ev = lambda g: lasso_eval(g, 3, 2, sat)      # noqa: E731
    assert ev(('U', P, Q)) == (True, True, True)
    assert ev(('G', P)) == (False, False, False)
    assert ev(('F', ('G', Q))) == (True, True, True)
    assert ev(('X', P)) == (True, False, False)
    assert ev(('R', Q, P)) == (False, False, False)      # p must hold until q releases: fails at 2
    assert ev(('R', P, ('or', P, Q))) == (True, True, True)
    assert ev(('G', ('F', P))) == (False, False, False)
    assert ev(('not', ('U', T, ('not', Q)))) == (False, False, True)


def test_reference_cross_audit():
    """naive CTL fixpoints == product semantics == bounded lasso sweep, all K(<=2) x CTL size<=1."""
    forms = spaces.ctl_by_size(0) + spaces.ctl_by_size(1)
    for k in list(spaces.kripkes(1)) + list(spaces.kripkes(2)):
        sem = Sem(k)
        for f in forms:
            a = ctl_sat(k, f)
            assert sem.sat(f) == a, (k, f)
            if f[0] in ('A', 'E'):
                g = f[1] if f[0] == 'E' else ('not', f[1])
                yes = sem.exists(g)
                for s in range(k.n):
                    found = any(sem.lasso_holds(g, st, lp) for st, lp in lassos_from(k, s, k.n, k.n))
                    assert found == (s in yes), (k, f, s)
                    if s in yes:
                        st, lp = sem.witness(g, s)
                        assert (st + lp)[0] == s and sem.lasso_is_path(st, lp) and sem.lasso_holds(g, st, lp)


def test_ltl_reference_duality_and_expansion():
    gs = spaces.path_by_size(1, spaces.LEAVES2)
    for k in spaces.kripke_reps(2)[::5]:
        sem = Sem(k)
        for g in gs:
            assert sem.sat(('A', g)) == sem.S - sem.sat(('E', ('not', g)))
        for a, b in itertools.product([P, Q, ('X', P)], repeat=2):
            u = ('U', a, b)
            assert sem.sat(('E', u)) == sem.sat(('E', ('or', b, ('and', a, ('X', u)))))
            r = ('R', a, b)
            assert sem.sat(('A', r)) == sem.sat(('A', ('not', ('U', ('not', a), ('not', b)))))


def test_fair_reference():
    # 0 <-> 1 with self loops, 2 -> 0, 2 -> 2 ; F = [{1}]
    k = spaces.K(3, [(0, 1), (1, 0), (0, 2)], [(), (), ('p',)])
    k = spaces.K(3, [(0, 1), (0, 1), (2, 0)], [(), (), ('p',)])
    sem = Sem(k, F=[{1}])
    assert sem.sat(('fairstates',)) == frozenset([0, 1, 2])
    assert sem.sat(('E', ('G', P))) == frozenset()            # staying in 2 forever is not fair
    assert Sem(k).sat(('E', ('G', P))) == frozenset([2])
    assert refsem.fair_states(k, [{1}]) == frozenset([0, 1, 2])
    ref, adm = fairmodel.d4_admissible(k, [{1}])
    assert ref == frozenset([0, 1, 2]) and frozenset([0, 1, 2]) in adm
    # trivial constraints do not change anything
    for f in spaces.ctl_by_size(1, spaces.LEAVES2):
        assert Sem(k, F=[]).sat(f) == Sem(k).sat(f) == Sem(k, F=[{0, 1, 2}]).sat(f)


def test_recognisers():
    yes = {'PL': ['p', 'not p', '( p and q and true )', 'p --> q', '( ( p ) )'],
           'CTL': ['A G p', 'E ( p U q )', 'not A X p', '( A F p and E G q )', 'A ( ( p ) U ( q or p ) )', 'X p'],
           'LTL': ['A G F p', 'p U q', 'G ( p --> F q )', 'A ( p U ( q R p ) )'],
           'CTLS': ['A F G p', 'E ( G F p and X q )', 'A G ( p --> A F E X q )', 'p U q']}
    no = {'PL': ['p q', 'p and q or p', 'A p', '( p', 'p -->', 'p --> q --> p'],
          'CTL': ['A F G q', 'A p and q', 'E G', 'A ( p U q U p )', 'A not X p'],
          'LTL': ['E G p', 'G ( A p ) q', '( A p )', 'A A p p', 'p U q U p'],
          'CTLS': ['A )', 'p U', 'p and q or p', '( p U q', 'A G ( p']}
    for lg in yes:
        for s in yes[lg]:
            assert refparse.accepts(lg, refparse.tokenize(s)), (lg, s)
        for s in no[lg]:
            assert not refparse.accepts(lg, refparse.tokenize(s)), (lg, s)
    assert refparse.tokenize('p & ~q | r') == ['p', 'and', 'not', 'q', 'or', 'r']
    assert refparse.tokenize('p $ q') is None
    assert refparse.guided_tokens('A and_', ['A', 'and', '_']) == ['A', 'and', '_']
    assert refparse.tree_yield(('and', P, ('not', Q), T)) == ['p', 'and', 'not', 'q', 'and', 'true']


def test_members():
    assert members.ctl(('A', ('G', P))) and not members.ctl(('A', ('F', ('G', P)))) and not members.ctl(('A', P))
    assert members.ltl(('A', ('F', ('G', P)))) and not members.ltl(('X', ('A', P))) and not members.ltl(('E', P))
    assert members.ctls(('E', ('U', ('A', ('X', P)), ('G', Q)))) and members.pl(('imp', P, ('not', Q)))
    assert not members.pl(('X', P)) and members.ctl(('X', P)) and not members.ctl_state(('X', P))


def test_truth_tables():
    tt = refbdd.TT(['a', 'b', 'c'])
    f = tt.of_expr(('|', ('&', ('v', 'a'), ('v', 'b')), ('v', 'c')))
    assert tt.support(f) == {'a', 'b', 'c'}
    assert tt.robdd_size(f, ['a', 'b', 'c']) == 3 and tt.robdd_size(f, ['c', 'a', 'b']) == 3
    g = tt.of_expr(('|', ('&', ('v', 'a'), ('v', 'b')), ('&', ('~', ('v', 'a')), ('v', 'b'))))
    assert tt.support(g) == {'b'} and tt.robdd_size(g, ['a', 'b', 'c']) == 1
    assert tt.cofactor(f, 'c', 0) == tt.of_expr(('&', ('v', 'a'), ('v', 'b')))
    x = tt.of_expr(('|', ('&', ('v', 'a'), ('~', ('v', 'b'))), ('&', ('~', ('v', 'a')), ('v', 'b'))))
    assert tt.robdd_size(x, ['a', 'b', 'c']) == 3


def test_d4_model_shape():
    # 2-cycle without self loops: genuinely fair, neither must nor may -> only the empty answer admissible
    k = spaces.K(2, [(1,), (0,)], [(), ()])
    ref, adm = fairmodel.d4_admissible(k, [{0}])
    assert ref == frozenset([0, 1]) and adm == {frozenset()}
    # 2-cycle, one self loop: may but not must -> empty or everything
    k = spaces.K(2, [(0, 1), (0,)], [(), ()])
    ref, adm = fairmodel.d4_admissible(k, [])
    assert ref == frozenset([0, 1]) and adm == {frozenset(), frozenset([0, 1])}


if __name__ == '__main__':
    for name, fn in sorted(globals().items()):
        if name.startswith('test_'):
            fn()
            print('ok', name)
