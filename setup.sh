#!/bin/sh
# Offline setup: verify the toolchain and byte-compile the framework. No build step:
# every check imports pyModelChecking from /repo's working tree at call time.
cd "$(dirname "$0")" || exit 2
set -e
/venv/bin/python - <<'PY'
import sys
import lark, pyModelChecking
assert pyModelChecking.__file__.startswith('/repo/'), pyModelChecking.__file__
import compileall
ok = compileall.compile_dir('mc', quiet=1, force=False)
sys.exit(0 if ok else 1)
PY
mkdir -p evidence replays
echo "setup ok"
