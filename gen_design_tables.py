#!/usr/bin/env python3
"""Regenerate the seeded-change table of DESIGN.md (between the SEEDED-TABLE markers)."""
import json, os
ROOT = os.path.dirname(os.path.abspath(__file__))
rows = []
for name in sorted(os.listdir(os.path.join(ROOT, 'seeded'))):
    mp = os.path.join(ROOT, 'seeded', name, 'meta.json')
    if not os.path.exists(mp):
        continue
    m = json.load(open(mp))
    diff = open(os.path.join(ROOT, 'seeded', name, 'patch.diff')).read()
    files = sorted(set(l[6:].replace('pyModelChecking/', '') for l in diff.splitlines() if l.startswith('+++ b/')))
    det = m.get('detected_by', [])
    kind = ''
    for c in det:
        f = m['checks'][c].get('first')
        if f:
            kind = f.get('kind')
            break
    rows.append('| %s | %s | %s | %s |' % (name, ', '.join(files), ', '.join(det) or '-', kind))
table = '| change | file(s) | caught by | first violation kind |\n|---|---|---|---|\n' + '\n'.join(rows) + '\n'
p = os.path.join(ROOT, 'DESIGN.md')
s = open(p).read()
a = s.index('<!-- SEEDED-TABLE-BEGIN -->') + len('<!-- SEEDED-TABLE-BEGIN -->\n')
b = s.index('<!-- SEEDED-TABLE-END -->')
open(p, 'w').write(s[:a] + table + s[b:])
print(len(rows), 'rows')
