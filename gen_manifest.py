#!/usr/bin/env python3
"""Regenerate MANIFEST.json from the table below (single source of truth)."""
import json
import os

ROOT = os.path.dirname(os.path.abspath(__file__))

TECH = 'bounded exhaustive enumeration of the input space, real code vs reference model'
TECH_HIST = 'explicit-state breadth-first search over operation histories on the real objects'

# id: (level text, note, technique, design_ref)
CHECKS = {
    'C01': ('Every total Kripke structure with <=2 states over {p,q} (all labellings) x every CTL '
            'formula with <=2 operators, all 3-state structures (representatives in quick, all '
            'labelled in thorough) x all formulas with <=1 operator, and seed-indexed complete '
            'blocks of the 692,860 three-operator formulas: the real CTL.modelcheck must return '
            'exactly the set computed by naive per-operator fixpoints. Small scope is adequate '
            'because the labelling algorithm is compositional: over all labellings every '
            'operator meets every operand-set pair on every graph.',
            'Trusted: the ~60-line naive fixpoint reference, itself audited on every size<=1 '
            'case against an explicit product construction, witness lassos evaluated by literal '
            'path semantics, and a complete bounded lasso sweep. Bounds: n<=3 (4 with one atom), '
            'formula size<=3.',
            TECH, '7/C01'),
}

NOT_YET = {}


def main():
    props = [json.loads(l) for l in open(os.path.join(ROOT, 'properties.jsonl'))]
    checks = []
    na = []
    for p in props:
        pid = p['id']
        if pid in CHECKS:
            text, note, tech, ref = CHECKS[pid]
            checks.append({
                'property_id': pid,
                'quick_cmd': './check %s --tier quick' % pid,
                'thorough_cmd': './check %s --tier thorough' % pid,
                'evidence_file': '/verif/evidence/%s.json' % pid,
                'replay_cmd_template': './check %s --replay {path}' % pid,
                'engine': 'mc',
                'level_claimed': {'category': 'model_checking', 'text': text,
                                  'design_ref': 'DESIGN.md section ' + ref},
                'level_note': note,
                'technique': tech,
            })
        else:
            na.append({'property_id': pid,
                       'reason': NOT_YET.get(pid, 'check not built yet (construction in progress; '
                                                  'see DESIGN.md section 7 for the planned design)')})
    man = {
        'version': 1,
        'setup_cmd': './setup.sh',
        'hooks': {
            'guard': 'PYMODELCHECKING_VERIF',
            'enable': 'no source hooks: every control point is reached from the harness side '
                      '(arguments, wrappers, run-time replacement of module globals)',
            'baseline_off_cmd': 'cd /repo && /venv/bin/python -m pytest -ra -q -p no:cacheprovider '
                                '--timeout=900 --continue-on-collection-errors',
            'source_commits': [],
            'add_only': True,
        },
        'engines': [{
            'name': 'mc', 'path': '/verif/mc',
            'serves_properties': [c['property_id'] for c in checks],
            'kind_free_text': 'hand-written bounded-exhaustive explorer in Python: enumerators for '
                              'structures/formulas/graphs/token strings/BDD histories, reference '
                              'models, sharded runner, replay artefacts',
        }],
        'checks': checks,
        'not_applicable': na,
        'notes': 'All checks import pyModelChecking from the /repo working tree at call time '
                 '(editable install); no build step. Known findings: /verif/known_findings.json.',
    }
    with open(os.path.join(ROOT, 'MANIFEST.json'), 'w') as fh:
        json.dump(man, fh, indent=1)
        fh.write('\n')


if __name__ == '__main__':
    main()
