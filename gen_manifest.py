#!/usr/bin/env python3
"""Regenerate MANIFEST.json from the table below (single source of truth)."""
import json
import os

ROOT = os.path.dirname(os.path.abspath(__file__))

TECH = 'bounded exhaustive enumeration of the input space, real code vs reference model'
TECH_HIST = 'explicit-state breadth-first search over operation histories on the real objects'

# id: (level text, note, technique, design_ref)
CHECKS = {
    'C01': ('Every total Kripke structure with <=2 states over {p,q} (all labellings) x every CTL '
            'formula with <=2 operators and a 3-ary and/or family, all 3-state structures '
            '(representatives in quick, all labelled in thorough) x all formulas with <=1 operator, '
            'all 50625 total graphs on 4 states for the SCC-based operators, and seed-indexed complete '
            'blocks of the 692,860 three-operator formulas: the real CTL.modelcheck must return '
            'exactly the set computed by naive per-operator fixpoints. Small scope is adequate '
            'because the labelling algorithm is compositional: over all labellings every '
            'operator meets every operand-set pair on every graph.',
            'Trusted: the ~60-line naive fixpoint reference, itself audited on every size<=1 '
            'case against an explicit product construction, witness lassos evaluated by literal '
            'path semantics, and a complete bounded lasso sweep. Bounds: n<=3 (4 for SCC-based '
            'operators), formula size<=3; chains and rings of 1500-9000 states with closed-form answers. '
            'Finding D16 (an atom named true/false is read as the constant) is listed in known_findings.json '
            'and matched by input and answer.', TECH, '7/C01'),
    'C02': ('All labelled structures with <=2 states x all LTL formulas A g with g of size<=1, '
            'iso-representatives x all 4224 size-2 path formulas, a 3-ary and/or family, 3-state '
            'structures over one atom, and blocks (thorough: all) of the 20048 size-3 formulas: '
            'LTL.modelcheck must equal S minus the states with a path satisfying not g, computed by '
            'a brute-force product over all guesses of the temporal subformulas. The tableau is not '
            'compositional, hence three nested temporal operators.',
            'Trusted: the product reference; every excluded state is certified by a witness lasso '
            're-evaluated with the literal path semantics, every included state (n<=2) by a sweep '
            'of all lassos with stem<=n, loop<=n+1.', TECH, '7/C02'),
    'C05': ('Every formula of size<=2 of CTL, LTL and CTL* (+3-ary family, size-3 blocks), also under '
            '0..3 outer negations: get_equivalent_restricted_formula() must stay inside the '
            'documented restricted alphabet and be equivalent on every Kripke structure with <=2 '
            'states (state formulas) or on every lasso word over 2^{p,q} within the length bound '
            '(path formulas); LNot(f) must be equivalent to not f and not start with two negations. '
            'The implementation\'s checkers are never called, so this is independent of C01-C03.',
            'Trusted: reference semantics only. Finding D8 (LTL.A rewriting raises AttributeError) '
            'is listed in known_findings.json and matched by call site and exception.', TECH, '7/C05'),
    'C08': ('All operator trees of depth<=2 over the union alphabet (and a block of depth 3) x 4 '
            'languages: construction with native operands, raw str/bool leaves and operands built '
            'in every other language, cast_to between all ordered language pairs, and the three '
            'modelcheck functions must succeed exactly on members of the language (documented '
            'grammars transcribed in mc/members.py) and raise TypeError otherwise.',
            'Trusted: membership predicates and a structural reader that uses class names and child '
            'lists only. Only documented arities are generated. Finding D17 (an atom spelled like an '
            'out-of-logic subformula hides it from the lazy type check of LTL.modelcheck) is listed in '
            'known_findings.json and matched by input.', TECH, '7/C08'),
    'C09': ('All formulas of size<=2 per logic, 3-ary and/or families, same-operator nestings, negation '
            'towers, a 33-name lexer-hostile atom menu and blocks of size 3: Parser()(str(f)) must have '
            'exactly the tree of f with every node in the logic (CTL printed in CTL* notation), and the '
            'printed-string -> tree table must stay a function (injectivity).',
            'Trusted: the structural reader. Atom names are non-reserved identifiers.', TECH, '7/C09'),
    'C10': ('Every token string of length<=4 (5 and blocks of 6 in thorough) over a 20-token alphabet '
            'to all four parsers in one process, one-character deviations of every accepted string of '
            '<=3 tokens, empty/whitespace inputs, cross-feeding of printed formulas: a parser either '
            'raises UnexpectedToken/UnexpectedCharacters with 0<=pos<=len or returns a formula of its '
            'own logic whose in-order yield is the input and whose input is derivable in the '
            'documented grammar (independent backtracking recogniser).',
            'Trusted: hand transcription of the four Parser.grammar attributes (mc/refparse.py). No '
            'completeness is demanded of the LALR parsers.', TECH, '7/C10'),
    'C11': ('All ordered pairs of a per-logic pool of ~1-5k formulas (size<=2, 3-ary families, printer '
            'stress shapes, renamed atoms): == iff same tree, symmetric, consistent with !=, hash, '
            'set and dict behaviour; transitivity on all triples of a 60-formula core; Bool vs bool; '
            'clone() equal, node- and operand-list-disjoint and mutation-independent, for formulas built from '
            'Formula operands and from plain str/bool operands.',
            'Trusted: structural reader for tree identity.', TECH, '7/C11'),
    'C12': ('Every labelled digraph on <=4 nodes (5 in thorough) under every node insertion order, '
            'every renaming (n<=3) and every per-node successor iteration order (n<=3; n=4 block in '
            'quick, all 17.8M in thorough): the yielded components must partition V and equal the '
            'mutual-reachability classes of a Warshall closure.',
            'Trusted: Warshall closure; successor order is controlled by order-preserving set '
            'subclasses installed from the harness.', TECH, '7/C12'),
    'C13': ('Every digraph on <=4 nodes x every node subset: reachable set, reversed graph (once and '
            'twice), subgraph (also with a non-node), clone + every one-step mutation; plus every '
            'operation history of length<=3 (4 in thorough) over 24 mutators/queries from 11 initial '
            'graphs replayed on a real DiGraph next to a set model. G must be unchanged by queries.',
            'Trusted: Warshall closure, set comprehensions.', TECH_HIST, '7/C13'),
    'C14': ('All (S,S0,R,L) combinations from menus covering non-total relations, states introduced by '
            'R only, labels for non-states, S0 outside S, every label container type; for every '
            'constructed structure every subset V for get_substructure and clone with mutations.',
            'Trusted: literal expectations computed from the arguments. L is None or a dict.', TECH, '7/C14'),
    'C15': ('get_fair_states on every total graph with <=4 states x every list of <=2 state sets; '
            'modelcheck(...,F=F) for CTL, LTL and CTL* on all labelled structures with <=2 states and '
            '3-state structures over one atom x every such F x one-operator formulas over atoms and '
            'negated atoms, against the Clarke-Grumberg-Peled fair semantics (fairness sets as extra '
            'Buchi sets); K and F must be untouched and no exception may escape.',
            'Findings D4 and D7 (known_findings.json) are genuine defects that cannot be repaired '
            'without breaking the unedited suite; they are recognised through defect models '
            '(mc/fairmodel.py): an answer is attributed to them only if it equals the model of the '
            'defect, anything else is a violation. Boolean constants excluded from exactness.',
            TECH, '7/C15 and 8'),
    'C16': ('Explicit-state breadth-first search over histories of the process-global BDD node store: '
            'build / apply / negate / restrict / grab child / drop / gc on 2-3 slots over 2-3 '
            'variables, every ordering, plus configurations in which a diagram over another ordering of the '
            'same variables lives in the same store; 2 variables x 2 slots searched to closure, others depth '
            'bounded; each transition runs the real library by replaying the history; invariants: no '
            'two live nodes with equal (var,low,high) or equal function, reduced, ordered, parent '
            'sets exact, slots agree with a truth-table model, == iff same root iff same function. A second family (crowd) holds N diagrams alive at once for every N up to 160 (quick) / 400 (thorough) in 5 shapes x 5 drop patterns x 2 re-creation routes, so that the weak parent sets become long, and checks root identity and the unique-triple invariant.',
            'State merging by (slot truth tables, multiset of live (var, truth table)); gc disabled '
            'during search with gc.collect as an operation plus a free-running pass at threshold 1. '
            'Address-dependent violations may not replay in every fresh process (noted in artefact).',
            TECH_HIST, '7/C16'),
    'C17': ('All 256 functions of 3 variables under all 6 orderings: every ordered pair x {&,|,^}, '
            'negation, every restriction; all expressions of depth<=2; cross-ordering call histories; '
            'thorough: all 65536 functions of 4 variables x a partner menu. Results must have the '
            'right truth table, be ordered, reduced, of minimal size, share the canonical root, and '
            'variables() must be the semantic support; ordering mismatch / unknown variable raise.',
            'Trusted: truth tables and subfunction counting.', TECH, '7/C17'),
    'C18': ('Every expression of depth<=2 over a,b,c,0,1 x every argument order (+unused variable): '
            'lambda form == expression form; word spellings; 7k unparenthesised n-ary / mixed-'
            'precedence strings judged against Python\'s own evaluation; str(o.root) and str(o) '
            're-parsed for all 256 (thorough 65536) functions x all orderings; missing variable => '
            'RuntimeError; 50 non-Boolean inputs => SyntaxError.',
            'Trusted: truth tables; Python\'s evaluation of the same string as precedence reference.',
            TECH, '7/C18'),
}

CHECKS.update({
    'C03': ('All labelled structures with <=2 states x all 1772 CTL* state formulas with <=2 nodes, '
            'representatives x (a block of) the 6510 three-node formulas over {p,q}, 3-state structures '
            'over one atom, 26 selected 4-5 node shapes, 3-ary families, structures whose labels collide '
            'with the fresh atoms the checker invents: CTLS.modelcheck must equal the innermost-first '
            'product semantics. Shapes force every branch of the quantifier elimination (CTL-shaped, '
            'LTL-only A, LTL-only E, quantifier under a temporal operator, Boolean roots).',
            'Trusted: mc/refsem.py Sem; top-level quantified verdicts certified by witness lassos '
            'evaluated literally, negative verdicts swept over all bounded lassos for n<=2. Finding D15 (an atom '
            'spelled like the fresh name of a quantified subformula is captured) is listed in known_findings.json '
            'and matched by input shape and answer.', TECH, '7/C03'),
    'C04': ('No reference: equations between results of the real checkers. Every ordered pair of a '
            '16-formula pool instantiated in the Boolean, duality and fixpoint-expansion laws for CTL '
            'and CTL* (LTL: conjunction, double negation, U/R/G expansion, duality) on all 148 labelled '
            'structures with <=2 states and 3-state representatives; every shared-fragment formula of '
            'size<=1 through every documented route (native, CTL* object, other logic\'s object, text '
            'with shared parser, text with parser=None).',
            'An undocumented route (CTL-typed object into LTL.modelcheck) may raise TypeError; if it '
            'returns it must agree.', TECH, '7/C04'),
    'C06': ('Schedules of a sequential program = iteration orders of its unordered collections. For '
            'every instance: all bijections onto 5 naming schemes, S/R list orders, label containers, '
            '(also one set object shared by equally labelled states), atom renamings, unreachable extensions; every permutation inside the height tie groups of '
            'the LTL closure (deviation-bounded when too many) and every successor-set order, both owned '
            'by harness-side wrappers; all 24 renamings of 4-state structures; the result mapped back '
            'must equal the base result. Hash seeds: fixed instance list in fresh interpreters.',
            'The seed space (2^32) is sampled, not enumerated; what is enumerated is the set of orders '
            'a seed can induce where order can matter. No reference semantics used. Finding D14 (a formula atom '
            'named fair captured by the fair label) is listed in known_findings.json and matched by input shape.',
            TECH, '7/C06'),
    'C07': ('Stateless search over call histories: every ordered pair of a 294-operation alphabet '
            '(checker x structure x formula x object/text/text-without-parser x F) and every triple of a '
            'sub-alphabet, all calls of a history sharing one live pool of caller-owned objects; after '
            'every call the deep snapshot of all structures, formula objects, F lists and texts is '
            'unchanged and the result equals the result of the same call in a pristine forked '
            'interpreter.', 'Trusted: fork-based isolation baseline. A pure implementation has one '
            'reachable pool state; the count of distinct snapshots is reported.', TECH_HIST, '7/C07'),
    'C19': ('Histories {call, mutate the returned set (3 ways), call again; two calls, mutate the first} '
            'on a matrix of 7 state-naming schemes (ints, strings, tuples, frozensets, mixed types, '
            'formula-like strings, big ints) x 5 labelling schemes (non-string labels, operator '
            'look-alikes, names colliding with the library\'s fresh atoms, container types) x 3 checkers x '
            '12 formulas (atoms absent from K, collision-named atoms) x F in {None,[{}],[{s0}]}: result '
            'is a set of K\'s states, not aliased to K, unaffected by mutation of earlier results, and '
            'no exception escapes.', 'Exactness additionally demanded where names do not collide with '
            'printed formulas. Well-formed queries only, so TypeError is a violation too.', TECH_HIST, '7/C19'),
})

ADDENDUM = (' Beyond the core scope the quick tier also enumerates the input dimensions that seven waves of '
            'independently seeded changes attacked (DESIGN.md section 17): n-ary and/or, negation-rich and '
            'deeply nested formulas, 4-7 state structures, unusual state / node / atom types and names, '
            'aliasing of caller-owned objects, duplicates, and query-edit-query call histories.')
for _k in list(CHECKS):
    _t = CHECKS[_k]
    CHECKS[_k] = (_t[0] + ADDENDUM, _t[1], _t[2], _t[3])

NOT_YET = {}


def main():
    props = [json.loads(l) for l in open(os.path.join(ROOT, 'properties.jsonl'))]
    checks = []
    na = []
    for p in props:
        pid = p['id']
        if pid in CHECKS:
            text, note, tech, ref = CHECKS[pid]
            checks.append({
                'property_id': pid,
                'quick_cmd': './check %s --tier quick' % pid,
                'thorough_cmd': './check %s --tier thorough' % pid,
                'evidence_file': '/verif/evidence/%s.json' % pid,
                'replay_cmd_template': './check %s --replay {path}' % pid,
                'engine': 'mc',
                'level_claimed': {'category': 'model_checking', 'text': text,
                                  'design_ref': 'DESIGN.md section ' + ref},
                'level_note': note,
                'technique': tech,
            })
        else:
            na.append({'property_id': pid,
                       'reason': NOT_YET.get(pid, 'check not built yet (construction in progress; '
                                                  'see DESIGN.md section 7 for the planned design)')})
    man = {
        'version': 1,
        'setup_cmd': './setup.sh',
        'hooks': {
            'guard': 'PYMODELCHECKING_VERIF',
            'enable': 'no source hooks: every control point is reached from the harness side '
                      '(arguments, wrappers, run-time replacement of module globals)',
            'baseline_off_cmd': 'cd /repo && /venv/bin/python -m pytest -ra -q -p no:cacheprovider '
                                '--timeout=900 --continue-on-collection-errors',
            'source_commits': [],
            'add_only': True,
        },
        'engines': [{
            'name': 'mc', 'path': '/verif/mc',
            'serves_properties': [c['property_id'] for c in checks],
            'kind_free_text': 'hand-written bounded-exhaustive explorer in Python: enumerators for '
                              'structures/formulas/graphs/token strings/BDD histories, reference '
                              'models, sharded runner, replay artefacts',
        }],
        'checks': checks,
        'not_applicable': na,
        'notes': 'All checks import pyModelChecking from the /repo working tree at call time '
                 '(editable install); no build step. Known findings: /verif/known_findings.json.',
    }
    with open(os.path.join(ROOT, 'MANIFEST.json'), 'w') as fh:
        json.dump(man, fh, indent=1)
        fh.write('\n')


if __name__ == '__main__':
    main()
