"""C07  Model checking is a pure function of its arguments.

Stateless explicit-state search over call histories: every ordered pair (depth 2) of a ~300-operation
alphabet and every triple of a sub-alphabet, executed on one live pool of caller-owned structures,
formula objects, fairness lists and parsers.  After EVERY call: the whole pool is unchanged and the
returned set equals what the same call returns in isolation (a pristine forked interpreter).
"""
import itertools
import json
import os
import subprocess
import sys

from .. import spaces, lib
from ..common import call, as_state_set, chunks
from ..runner import deadline_passed, jsonable

from pyModelChecking import Kripke

RULE = ('operations = (checker, structure, formula, object|text|text-without-parser, F); all ordered '
        'pairs of operations and all triples of a sub-alphabet, each history on a fresh pool shared '
        'by its calls; states = distinct pool snapshots observed (1 for a pure implementation), '
        'transitions = calls executed; a history is non-trivial if both calls touch the same '
        'structure or the same formula object or F is given')
ASSUMPTIONS = ['isolation baseline: each operation executed once in a forked child of a pristine '
               'interpreter that has only imported the library',
               'well-formed queries never raise (an exception counts as a changed result)',
               'F is a list of sets']
BUDGET = {'quick': 900, 'thorough': 3600}

P, Q = spaces.P, spaces.Q


def N(a):
    return ('not', a)


FORMS = {
    'CTL': [('A', ('G', ('imp', P, ('A', ('F', Q))))), ('and', ('or', P, Q), ('E', ('U', P, Q)), N(Q)),
            N(('E', ('X', ('and', P, Q)))), ('A', ('R', ('or', P, Q), P))],
    'LTL': [('A', ('G', ('F', P))), ('A', ('U', P, Q)), ('A', ('and', ('F', P), ('G', ('or', P, Q)))),
            ('A', ('imp', ('X', P), ('F', N(Q))))],
    'CTLS': [('or', P, ('E', ('G', Q)), Q), ('A', ('F', ('G', P))), ('E', ('G', ('F', Q))),
             ('A', ('G', ('imp', P, ('A', ('F', ('E', ('X', Q)))))))],
}
FS = [None, [], [[0]], [[0], [1]], [[0, 1]]]
MODES = ('obj', 'text')


class Obj(object):
    """A state that hashes and compares by identity; its repr does not show the address."""

    def __init__(self, i):
        self.i = i

    def __repr__(self):
        return 'Obj<%d>' % self.i


def make_structures():
    return [Kripke(S=[0, 1], R=[(0, 1), (1, 1), (1, 0)], L={0: {'p'}, 1: {'q'}}),
            Kripke(S=[0, 1, 2], S0=[2], R=[(0, 1), (1, 0), (0, 0), (1, 1), (2, 0), (2, 2)],
                   L={0: {'p', 'fair'}, 1: {'q', '[A(G(p))]'} | set('[E(X(q))]#%d' % i for i in range(40)) |
                      set('[A(F([E(X(q))]#%d))]#%d' % (i, i + 1) for i in range(40)) |
                      set('[E(G(q))]%d' % i for i in range(40)), 2: {'p', 'q'}}),
            Kripke(S=[0], R=[(0, 0)], L={0: {'p'}}),
            # two separate 2-state components with self-loops everywhere: [{0,1}] is met by both,
            # [{0},{1}] by none - fairness lists with equal unions but different fair states
            Kripke(S=[0, 1, 2, 3], R=[(0, 2), (2, 0), (0, 0), (2, 2), (1, 3), (3, 1), (1, 1), (3, 3), (0, 1)],
                   L={0: {'p', 'fair'}, 1: {'q'}, 2: {'p', 'q'},
                      # labels spelled like numbered fresh atoms for E G q, which is false in state 3, and
                      # like numbered fair labels ('fair' itself is an atom of state 0; state 3 has no fair
                      # path under [{0}]): a numbering that is not re-checked against the atoms collides
                      3: set('[E(G(q))]#%d' % i for i in range(80)) | set('[E(G(q))](%d)' % i for i in range(8)) |
                      set('fair%d' % i for i in range(600))}),
            _obj_structure()]


def _obj_structure():
    a, b, c = Obj(0), Obj(1), Obj(2)
    return Kripke(S=[a, b, c], R=[(a, b), (b, a), (a, a), (b, b), (c, a), (c, c)],
                  L={a: {'p'}, b: {'q'}, c: {'p', 'q'}})


def _unused():
    return [None]


def alphabet():
    ops = []
    for c in ('CTL', 'LTL', 'CTLS'):
        for ki in range(5):
            if ki == 4:
                # identity-hashed states: object formulas only, with and without fairness
                for fi in (0, 2):
                    ops.append((c, ki, fi, 'obj', 0))
                ops.append((c, ki, 3, 'obj', 1))
                continue
            for fi in range(4):
                for mode in MODES:
                    ops.append((c, ki, fi, mode, 0))
            # fairness: formula objects 0 and 3, every F list (the lists 3 and 4 have equal unions)
            for fi in (0, 3):
                for Fi in range(1, len(FS)):
                    ops.append((c, ki, fi, 'obj', Fi))
            ops.append((c, ki, 1, 'text', 2))
    for c in ('CTL', 'LTL', 'CTLS'):
        for ki in (0, 1):
            ops.append((c, ki, 1, 'text-noparser', 0))
    # ill-formed calls: they raise TypeError / a ParserError, the caller catches it and carries on with
    # the same objects (the pool must be untouched, later results unchanged)
    for c in ('CTL', 'LTL', 'CTLS'):
        for ki in (1, 3):
            for Fi in (0, 2, 4):
                ops.append((c, ki, 0, 'bad-obj', Fi))
            ops.append((c, ki, 0, 'bad-text', 2))
    return ops


def sub_alphabet(n):
    ops = alphabet()
    picks = [o for o in ops if o[3] == 'obj' and o[1] in (1, 3) and o[2] == 3 and o[4] in (0, 3, 4)]
    picks += [o for o in ops if o[3] == 'text' and o[1] == 0 and o[2] == 3 and o[4] == 0]
    picks += [o for o in ops if o[3] == 'text-noparser' and o[1] == 0]
    return picks[:n]


_PARSERS = {}


def shared_parser(c):
    # Parser() costs ~20 ms; the caller-owned parsers are built once per process and shared by all
    # histories (a parser that turned stateful would show up as history dependence all the same)
    if c not in _PARSERS:
        _PARSERS[c] = lib.LANGS[c].Parser()
    return _PARSERS[c]


class Pool(object):
    def __init__(self):
        self.K = make_structures()
        self.forms = dict((c, [lib.build(f, lib.LANGS[c]) for f in FORMS[c]]) for c in FORMS)
        self.texts = dict((c, [str(lib.build(f, lib.CTLS)) for f in FORMS[c]]) for c in FORMS)
        self.parsers = dict((c, shared_parser(c)) for c in FORMS)
        self.F = [None if F is None else [set(Pp) for Pp in F] for F in FS]

    def snapshot(self):
        return (tuple(lib.snapshot_kripke(k) for k in self.K),
                tuple((c, tuple(str(o) for o in self.forms[c]),
                       tuple(lib.read(o) for o in self.forms[c])) for c in sorted(self.forms)),
                tuple(None if F is None else tuple(tuple(sorted(Pp)) for Pp in F) for F in self.F),
                tuple((c, tuple(self.texts[c])) for c in sorted(self.texts)))

    def run(self, op):
        c, ki, fi, mode, Fi = op
        C = lib.LANGS[c]
        kw = {}
        if self.F[Fi] is not None:
            kw['F'] = self.F[Fi]
        if mode in ('bad-obj', 'bad-text'):
            # a formula outside the called logic (nested quantifier / path formula), as object or text
            bad = {'CTL': ('A', ('F', ('G', P))), 'LTL': ('A', ('G', ('E', ('F', P)))), 'CTLS': ('X', P)}[c]
            if mode == 'bad-obj':
                arg = lib.build(bad, lib.CTLS)
            else:
                arg = str(lib.build(bad, lib.CTLS)) + ' )'
                kw['parser'] = self.parsers[c]
            r = call(C.modelcheck, self.K[ki], arg, **kw)
            if r[0] == 'exc' and r[1] in ('TypeError', 'UnexpectedToken', 'UnexpectedCharacters'):
                return ('set', ['<raised %s>' % ('TypeError' if r[1] == 'TypeError' else 'ParserError')])
            return ('exc', 'IllFormedCallNotRejected', repr(r)[:120])
        if mode == 'obj':
            arg = self.forms[c][fi]
        else:
            arg = self.texts[c][fi]
            if mode == 'text':
                kw['parser'] = self.parsers[c]
        r = call(C.modelcheck, self.K[ki], arg, **kw)
        if r[0] == 'ok' and isinstance(r[1], set):
            own = list(self.K[ki].states())
            if not all(any(x is s for s in own) for x in r[1]):
                return ('exc', 'ForeignStateObjects', 'the result holds objects that are not states of K')
        return as_state_set(r)


def baselines():
    """Result of every operation in isolation: forked children of a pristine interpreter."""
    p = subprocess.run([sys.executable, '-m', 'mc.props.C07', '--baseline'],
                       cwd=os.path.dirname(os.path.dirname(os.path.dirname(os.path.abspath(__file__)))),
                       stdout=subprocess.PIPE, stderr=subprocess.PIPE,
                       env=dict(os.environ, PYTHONHASHSEED='0'))
    lines = [l for l in p.stdout.decode().splitlines() if l.startswith('BASELINE ')]
    if not lines:
        raise RuntimeError('baseline subprocess failed: %s' % p.stderr.decode()[-500:])
    return json.loads(lines[-1][len('BASELINE '):])


def _baseline_main():
    import io
    ops = alphabet()
    out = {}
    for i, op in enumerate(ops):
        r, w = os.pipe()
        pid = os.fork()
        if pid == 0:
            try:
                os.close(r)
                sys.stdout = io.StringIO()
                res = Pool().run(op)
                os.write(w, json.dumps(jsonable(res)).encode())
            finally:
                os._exit(0)
        os.close(w)
        data = b''
        while True:
            chunk = os.read(r, 65536)
            if not chunk:
                break
            data += chunk
        os.close(r)
        os.waitpid(pid, 0)
        out[str(i)] = json.loads(data.decode()) if data else ['exc', 'ChildDied', '']
    print('BASELINE ' + json.dumps(out))


def scope(tier, seed):
    n = len(alphabet())
    return {'operations': n, 'depth 2': 'all %d ordered pairs' % (n * n),
            'depth 3': 'all triples of a %d-operation sub-alphabet' % len(sub_alphabet(12 if tier == 'quick' else 26)),
            'pool': '5 structures (2-state with self-loop; 3-state with two SCCs whose labels contain "fair", '
                    '"[A(G(p))]" and numbered fresh-name look-alikes; 1-state; two 2-state components with a user '
                    'atom "fair" and atoms fair0..fair599 / [E(G(q))]#0..79 on a state without a fair path; '
                    'identity-hashed state objects), 4 formulas per checker (CTL-native, LTL fallback, E-rewrite, '
                    'nested quantifier), F in {None, [], [{0}], [{0},{1}], [{0,1}]}, object / text with caller '
                    'parser / text with parser=None, ill-formed calls that must raise'}


def plan(tier, seed):
    base = baselines()
    n = len(alphabet())
    sh = []
    for lo, hi in chunks(n, 3):
        sh.append(['pairs', lo, hi, base])
    m = len(sub_alphabet(12 if tier == 'quick' else 26))
    for i in range(m):
        sh.append(['triples', i, m, base])
    return sh


def norm(res):
    return json.loads(json.dumps(jsonable(res)))


def run_history(hist, ops, base, acc, seen_states):
    pool = Pool()
    snap0 = pool.snapshot()
    seen_states.add(snap0)
    for step, oi in enumerate(hist):
        op = ops[oi]
        res = norm(pool.run(op))
        acc.add('transitions')
        case = {'history': [list(ops[x]) for x in hist], 'history_idx': list(hist), 'step': step}
        snap = pool.snapshot()
        seen_states.add(snap)
        if snap != snap0:
            what = [i for i in range(4) if snap[i] != snap0[i]]
            acc.violation('pool-modified', dict(case, component=['structures', 'formulas', 'F', 'texts'][what[0]]),
                          None, None)
            return
        if res[0] != 'set':
            acc.violation('exception', case, base[str(oi)], res)
            return
        if res != base[str(oi)]:
            acc.violation('result-depends-on-history', case, base[str(oi)], res)
            return


def nontrivial(hist, ops):
    a, b = ops[hist[0]], ops[hist[-1]]
    return 1 if (a[1] == b[1] or (a[0] == b[0] and a[2] == b[2]) or a[4] or b[4]) else 0


def run_shard(shard, tier, seed, acc):
    ops = alphabet()
    base = shard[3]
    seen = set()
    if shard[0] == 'pairs':
        for a in range(shard[1], shard[2]):
            # depth 1
            run_history((a,), ops, base, acc, seen)
            acc.ev(1, 0)
            for b in range(len(ops)):
                if b % 64 == 0 and deadline_passed():
                    acc.capped()
                    return
                run_history((a, b), ops, base, acc, seen)
                acc.ev(1, nontrivial((a, b), ops))
        acc.add('states', len(seen))
        acc.sample({'history': [list(ops[shard[1]]), list(ops[7])], 'checked': 'pool snapshot + result vs isolation'})
        return
    if shard[0] == 'triples':
        sub = sub_alphabet(shard[2])
        idx = [ops.index(o) for o in sub]
        a = idx[shard[1]]
        for b in idx:
            for c in idx:
                if deadline_passed():
                    acc.capped()
                    return
                run_history((a, b, c), ops, base, acc, seen)
                acc.ev(1, nontrivial((a, b, c), ops))
        acc.add('states', len(seen))
        return
    raise ValueError(shard)


def replay(art):
    from ..runner import Acc
    c = art['case']
    ops = alphabet()
    base = baselines()
    acc = Acc()
    run_history(tuple(c['history_idx']), ops, base, acc, set())
    return {'violates': acc.d['nviol'] > 0, 'detail': acc.d['violations'][:1]}


if __name__ == '__main__':
    if '--baseline' in sys.argv:
        _baseline_main()
