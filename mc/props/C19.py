"""C19  Every well-formed query returns a fresh set of the structure's own states.

Explicit-state search over {call, mutate the returned set, call again} histories on a matrix of
awkward shapes: heterogeneous state names, non-string / operator-like / collision-prone labels,
atoms absent from K, with and without fairness constraints.
"""
import itertools

from .. import spaces, lib
from ..refsem import Sem
from ..common import call, chunks
from ..runner import deadline_passed

from pyModelChecking import Kripke

RULE = ('graphs (a quarter of the K(<=2) representatives + 6 three-state structures) x 7 state-naming '
        'schemes x 5 labelling schemes x 3 checkers x 12 formulas x F in {None, [{}], [{s0}]}; for '
        'each: call, mutate the result in 3 ways, call again; two calls then mutate the first; '
        'non-trivial = the answer is neither empty nor all states, or names/labels are not plain')
ASSUMPTIONS = ['formulas are inside the called logic, so every exception (TypeError included) is a '
               'violation', 'exactness is additionally demanded for F=None when neither state names nor '
               'label names collide with printed formulas (reference: mc/refsem.py)',
               'atoms named like operators get robustness clauses only']
BUDGET = {'quick': 900, 'thorough': 3600}

P, Q = spaces.P, spaces.Q
ZZ = ('ap', 'zz')
FAIRAP = ('ap', 'fair')


def N(a):
    return ('not', a)


FORMS = {
    'CTL': [P, N(Q), ('E', ('X', P)), ('A', ('G', ('imp', P, ('A', ('F', Q))))), ('E', ('U', P, Q)),
            ('A', ('R', Q, P)), ('E', ('G', ZZ)), ('A', ('F', N(ZZ))), ('or', ('E', ('G', P)), FAIRAP),
            ('and', P, Q, spaces.T), ('A', ('X', spaces.F_)), ('E', ('F', ('and', P, N(Q))))],
    'LTL': [('A', P), ('A', ('G', ('F', P))), ('A', ('U', P, Q)), ('A', ('F', ('G', N(Q)))),
            ('A', ('X', ('X', P))), ('A', ('R', Q, ('or', P, ZZ))), ('A', ('G', ZZ)), ('A', N(ZZ)),
            ('A', ('or', ('G', P), ('F', FAIRAP))), ('A', ('and', ('F', P), ('F', Q), spaces.T)),
            ('A', ('imp', ('G', P), ('X', Q))), ('A', spaces.F_)],
    'CTLS': [P, ('A', ('G', P)), ('E', ('G', ('F', Q))), ('A', ('F', ('G', P))),
             ('E', ('X', ('A', ('G', P)))), ('A', ('G', ('imp', P, ('A', ('F', ('E', ('X', Q))))))),
             ('not', ('A', ('G', ZZ))), ('E', ('U', ('A', ('X', P)), ('E', ('G', ZZ)))),
             ('and', ('A', ('G', P)), ('E', ('X', FAIRAP))), ('E', ('and', ('X', P), ('F', Q), ('G', spaces.T))),
             ('A', ('R', ('E', ('X', P)), Q)), ('E', N(('X', P)))],
}

class St(object):
    """A state object that hashes and compares by identity (no __eq__ / __hash__ of its own)."""

    def __init__(self, i):
        self.i = i

    def __repr__(self):
        return 'St#%d@%x' % (self.i, id(self))


NAMINGS = {
    'objects': lambda i: St(i),
    'ints': lambda i: i,
    'strings': lambda i: 's%d' % i,
    'tuples': lambda i: (i, 'x'),
    'frozensets': lambda i: frozenset([i, 'a']),
    'mixed': lambda i: (0, 'mid', ('end', 1))[i],
    'formula-like': lambda i: ('p', 'not p', '(p U q)')[i],
    'big-ints': lambda i: (10 ** 12, -1, 17)[i],
}
PLAIN_NAMINGS = ('ints', 'strings', 'tuples', 'frozensets', 'mixed', 'big-ints', 'objects')

EXTRA_LABELS = {
    'plain': [],
    'non-strings': [7, ('lvl', 2), None, 3.5, frozenset([1])],
    'operator-like': ['not p', 'p and q', '(p U q)', 'true', 'false', 'A(G(p))', 'X p'],
    'collisions': ['fair', 'fair0', 'fair1', '[A(G(p))]', '[[A(G(p))](0)]', '[E(X(p))]', '[[E(X(p))](0)]',
                   '[A(F(E(X(q))))]', '[E(G(zz))]', '[A(X(p))]'],
    'containers': [],
}
EXACT_LABELS = ('plain', 'non-strings', 'containers')


def graphs():
    reps = spaces.kripke_reps(1) + spaces.kripke_reps(2)
    out = [k for i, k in enumerate(reps) if i % 4 == 1]
    three = [((1,), (2,), (0,)), ((0, 1), (2,), (2,)), ((1, 2), (0,), (2,)), ((1,), (0, 2), (2, 0)),
             ((0,), (0, 1, 2), (1,)), ((2,), (2,), (0, 1))]
    labs = [(('p',), ('q',), ()), (('p', 'q'), (), ('p',)), ((), ('q',), ('p', 'q'))]
    for i, succ in enumerate(three):
        out.append(spaces.K(3, succ, labs[i % 3]))
    return out


def build_K(k, naming, scheme):
    nm = NAMINGS[naming]
    names = [nm(i) for i in range(k.n)]
    L = {}
    for i in range(k.n):
        labs = list(k.lab[i]) + (EXTRA_LABELS[scheme] if (i % 2 == 0 or scheme == 'collisions') else [])
        if scheme == 'containers':
            labs = [labs, tuple(labs), frozenset(labs)][i % 3]
        L[names[i]] = labs
    Kl = Kripke(S=names, R=[(names[i], names[j]) for i in range(k.n) for j in k.succ[i]], L=L)
    return Kl, names


def scope(tier, seed):
    return {'graphs': '%d (quick: the six 3-state structures and every other 1-2 state one, parity by '
            'seed)' % len(graphs()), 'namings': sorted(NAMINGS), 'label schemes': sorted(EXTRA_LABELS),
            'formulas per checker': 12,
            'shared label objects': 'label sets shared between states / frozensets via replace_labelling_function; '
                                    'F given as sets, frozensets, the states view, dict key views',
            'extremes': 'the empty structure Kripke() (all formulas, 4 F values); chains, reversed chains and '
                        'rings of 1200 and 2500 states with CTL-shaped formulas through CTL and CTL*',
            'fresh-name collisions': 'CTL*: per formula the structure is labelled with exactly the fresh '
                                     'atom names a dry run generated (+ their (0) variants); atoms also '
                                     'renamed to format-hostile strings ({p}, %(q)s, {0}, p{, }%s)', 'F': ['None', '[set()]', '[{first state}]'],
            'histories': ['call, clear result, call', 'call, add foreign object, call',
                          'call, discard a member, call', 'call, call, mutate first, compare second, call']}


def run_shared(k, naming, acc):
    """Label sets that are the caller's own objects, shared between equally labelled states, installed
    with replace_labelling_function; fairness constraints given as sets, frozensets and key views."""
    nm = NAMINGS[naming]
    names = [nm(i) for i in range(k.n)]
    sem = Sem(k)
    inv = dict((repr(x), i) for i, x in enumerate(names))
    for variant in ('shared', 'frozen'):
        def fresh():
            K_ = Kripke(S=names, R=[(names[i], names[j]) for i in range(k.n) for j in k.succ[i]])
            pool = {}
            if variant == 'shared':
                L_ = dict((names[i], pool.setdefault(k.lab[i], set(k.lab[i]))) for i in range(k.n))
            else:
                L_ = dict((names[i], frozenset(k.lab[i])) for i in range(k.n))
            K_.replace_labelling_function(L_)
            return K_
        Kl = fresh()
        snap = lib.snapshot_kripke(Kl)
        for logic in ('CTL', 'LTL', 'CTLS'):
            if variant == 'frozen' and logic == 'CTLS':
                continue      # the CTL* checker adds fresh atoms to the label sets of its clone
            for f in FORMS[logic][:8]:
                for Fi in range(5):
                    F = [None, [set()], [set([names[0]])], [Kl.states()], [dict((x, 1) for x in names[:1]).keys(),
                                                                          frozenset(names)]][Fi]
                    kw = {} if F is None else {'F': F}
                    r = call(lib.LANGS[logic].modelcheck, Kl, lib.build(f, lib.LANGS[logic]), **kw)
                    acc.ev(1, 1)
                    acc.add('transitions')
                    case = {'k': k.to_json(), 'naming': naming, 'labels': 'shared-objects', 'logic': logic,
                            'f': spaces.to_jsonable(f), 'f_str': spaces.fstr(f), 'F': Fi, 'variant': variant}
                    if r[0] != 'ok':
                        acc.violation('exception', case, 'a set of states', r[1:])
                        Kl = fresh()
                        continue
                    if not isinstance(r[1], set) or not set(r[1]) <= set(names):
                        acc.violation('non-state-in-result', case, None, sorted(map(repr, r[1])))
                        continue
                    if Fi == 0 and naming in PLAIN_NAMINGS:
                        got = frozenset(inv[repr(x)] for x in r[1])
                        if got != sem.sat(f):
                            acc.violation('wrong-answer', case, sorted(sem.sat(f)), sorted(got))
                    if lib.snapshot_kripke(Kl) != snap:
                        acc.violation('structure-modified', case)
                        Kl = fresh()


def run_extremes(acc):
    """The empty structure (vacuously total) and long simple paths (recursion depth)."""
    from ..refsem import ctl_sat
    K0 = Kripke()
    for logic in ('CTL', 'LTL', 'CTLS'):
        for f in FORMS[logic]:
            for F in (None, [], [set()], [set([0])]):
                kw = {} if F is None else {'F': F}
                r = call(lib.LANGS[logic].modelcheck, K0, lib.build(f, lib.LANGS[logic]), **kw)
                acc.ev(1, 1)
                acc.add('transitions')
                if r[0] != 'ok' or not isinstance(r[1], set) or r[1]:
                    acc.violation('exception' if r[0] != 'ok' else 'non-state-in-result',
                                  {'k': {'n': 0, 'succ': [], 'lab': []}, 'naming': 'ints', 'labels': 'empty-structure',
                                   'logic': logic, 'f': spaces.to_jsonable(f), 'f_str': spaces.fstr(f),
                                   'F': repr(F)}, 'set()', r[1:] if r[0] != 'ok' else sorted(map(repr, r[1])))
    for n in (1200, 2500):
        names = list(range(n))
        for shape in ('chain', 'reverse-chain', 'ring'):
            if shape == 'chain':
                R = [(i, i + 1) for i in range(n - 1)] + [(n - 1, n - 1)]
            elif shape == 'reverse-chain':
                R = [(i + 1, i) for i in range(n - 1)] + [(0, 0)]
            else:
                R = [(i, (i + 1) % n) for i in range(n)]
            L = {n - 1: {'p'}, 0: {'q'}, n // 2: {'p', 'q'}}
            k = spaces.K(n, [tuple(d for (s, d) in R if s == i) for i in range(n)] if n < 0 else
                         [()] * n, [L.get(i, ()) for i in range(n)])
            succ = [[] for _ in range(n)]
            for (s, d) in R:
                succ[s].append(d)
            k = spaces.K(n, succ, [L.get(i, ()) for i in range(n)])
            Kl = Kripke(S=names, R=R, L=L)
            forms = [('E', ('F', P)), ('A', ('G', N(Q))), ('E', ('U', N(P), Q)), ('E', ('G', N(P))),
                     ('A', ('F', P)), ('A', ('R', P, N(Q))), ('A', ('X', ('E', ('F', Q))))]
            for f in forms:
                ref = ctl_sat(k, f)
                for logic in ('CTL', 'CTLS'):
                    r = call(lib.LANGS[logic].modelcheck, Kl, lib.build(f, lib.LANGS[logic]))
                    acc.ev(1, 1)
                    acc.add('transitions')
                    case = {'k': {'n': n, 'shape': shape}, 'naming': 'ints', 'labels': 'long-' + shape,
                            'logic': logic, 'f': spaces.to_jsonable(f), 'f_str': spaces.fstr(f), 'F': 0}
                    if r[0] != 'ok':
                        acc.violation('exception', case, 'a set of %d states' % len(ref), r[1:])
                    elif not isinstance(r[1], set) or set(r[1]) != set(ref):
                        acc.violation('wrong-answer', case, len(ref), len(r[1]))


def plan(tier, seed):
    n = len(graphs())
    sh = [['extremes']]
    for gi in range(n):
        if tier == 'quick' and gi % 2 != seed % 2 and gi < n - 6:
            continue
        for nm in sorted(NAMINGS):
            sh.append(['g', gi, nm])
    return sh


def aliases(Kl):
    ids = set()
    ids.add(id(Kl.S0))
    if lib.owns_adjacency(Kl):
        ids.add(id(Kl._next))
        for s in Kl._next:
            ids.add(id(Kl._next[s]))
    if lib.owns_labels(Kl):
        ids.add(id(Kl._labels))
        for s in Kl._labels:
            ids.add(id(Kl._labels[s]))
    return ids


def run_group(k, naming, scheme, acc):
    Kl, names = build_K(k, naming, scheme)
    inv = dict((repr(nm), i) for i, nm in enumerate(names))
    states = set(names)
    snap = lib.snapshot_kripke(Kl)
    sem = Sem(k)
    for logic in ('CTL', 'LTL', 'CTLS'):
        C = lib.LANGS[logic]
        for fi, f in enumerate(FORMS[logic]):
            for Fi in range(3):
                F = [None, [set()], [set([names[0]])]][Fi]
                case = {'k': k.to_json(), 'naming': naming, 'labels': scheme, 'logic': logic,
                        'f': spaces.to_jsonable(f), 'f_str': spaces.fstr(f), 'F': Fi}

                def do():
                    kw = {} if F is None else {'F': F}
                    return call(C.modelcheck, Kl, lib.build(f, C), **kw)
                r1 = do()
                acc.add('transitions')
                if r1[0] != 'ok':
                    acc.ev(1, 1)
                    acc.violation('exception', case, 'a set of states', r1[1:])
                    continue
                res = r1[1]
                if type(res) is not set and not isinstance(res, set):
                    acc.ev(1, 1)
                    acc.violation('not-a-set', case, 'set', type(res).__name__)
                    continue
                orig = set(res)
                nontriv = 1 if (0 < len(orig) < k.n or naming != 'ints' or scheme != 'plain') else 0
                acc.ev(1, nontriv)
                if not orig <= states:
                    acc.violation('non-state-in-result', case, sorted(repr(s) for s in states),
                                  sorted(repr(s) for s in orig))
                if id(res) in aliases(Kl):
                    acc.violation('result-aliases-structure', case)
                # exactness where meaning is defined
                if Fi == 0 and naming in PLAIN_NAMINGS and scheme in EXACT_LABELS:
                    ref = sem.sat(f)
                    got = frozenset(inv[repr(s)] for s in orig if repr(s) in inv)
                    if got != ref:
                        acc.violation('wrong-answer', case, sorted(ref), sorted(got))
                # histories: mutate the result, call again
                foreign = ('not', 'a', 'state')
                for mut in (('clear', 'add-foreign', 'discard-member') if Fi == 0 else ('add-foreign',)):
                    r = do()
                    acc.add('transitions')
                    if r[0] != 'ok' or not isinstance(r[1], set):
                        acc.violation('exception-on-repeat', dict(case, mutation=mut), sorted(map(repr, orig)), r[1:])
                        break
                    if r[1] is res:
                        acc.violation('same-object-returned-twice', dict(case, mutation=mut))
                        break
                    if set(r[1]) != orig:
                        acc.violation('result-changed-after-mutation', dict(case, mutation=mut),
                                      sorted(map(repr, orig)), sorted(map(repr, r[1])))
                        break
                    # mutate this result before the next call
                    if mut == 'clear':
                        r[1].clear()
                    elif mut == 'add-foreign':
                        r[1].add(foreign)
                        for s in states:
                            r[1].add(s)
                    else:
                        for s in list(r[1])[:1]:
                            r[1].discard(s)
                        r[1].add(foreign)
                    res_prev = r[1]
                # first result mutated too; final call must still be the original answer
                res.clear()
                res.add(foreign)
                r = do()
                acc.add('transitions')
                if r[0] != 'ok' or not isinstance(r[1], set) or set(r[1]) != orig:
                    acc.violation('result-changed-after-mutation', dict(case, mutation='final'),
                                  sorted(map(repr, orig)), r[1:] if r[0] != 'ok' else sorted(map(repr, r[1])))
                if lib.snapshot_kripke(Kl) != snap:
                    acc.violation('structure-modified', case)
                    Kl, names = build_K(k, naming, scheme)
                    snap = lib.snapshot_kripke(Kl)
    acc.add('states', 1)


HOSTILE = [None, {'p': '{p}', 'q': '%(q)s', 'zz': '{0}', 'fair': '{}'}, {'p': 'p{', 'q': '}%s', 'zz': '%d', 'fair': '{{'}]


def rename(f, m):
    if f[0] == 'ap':
        return ('ap', m.get(f[1], f[1]))
    if f[0] in ('t', 'f'):
        return f
    return (f[0],) + tuple(rename(x, m) for x in f[1:])


def run_fresh(k, naming, acc):
    """CTL* only: label the structure with exactly the fresh atom names the checker generates for the
    quantified subformulas of the formula at hand (recorded on a dry run), so that its name-collision
    loop runs for every one of them; atoms optionally renamed to format-hostile strings."""
    import pyModelChecking.CTLS.model_checking as CMC
    orig = getattr(CMC, '_get_a_new_atomic_proposition_for', None)
    if orig is None:
        # the private helper the recorder wraps is gone: the generated names cannot be observed, the
        # other shards still apply
        acc.add('fresh_name_recorder_absent')
        return
    sem = Sem(k)
    for f in FORMS['CTLS']:
        for m in HOSTILE:
            f2 = f if m is None else rename(f, m)
            nm = NAMINGS[naming]
            names = [nm(i) for i in range(k.n)]

            def labels(extra):
                L = {}
                for i in range(k.n):
                    labs = [a if m is None else m.get(a, a) for a in k.lab[i]]
                    L[names[i]] = labs + (list(extra) if i % 2 == 0 or len(extra) > 3 else list(extra)[:1])
                return L
            R = [(names[i], names[j]) for i in range(k.n) for j in k.succ[i]]
            rec = []

            def recording(kripke, formula, rec=rec):
                r = orig(kripke, formula)
                rec.append(r)
                return r
            CMC._get_a_new_atomic_proposition_for = recording
            try:
                call(lib.CTLS.modelcheck, Kripke(S=names, R=R, L=labels([])), lib.build(f2, lib.CTLS))
            finally:
                CMC._get_a_new_atomic_proposition_for = orig
            gen = list(dict.fromkeys(rec))
            if not gen:
                continue
            extra = gen + ['[%s(0)]' % g for g in gen]
            # names that differ from a generated one only in a trailing counter (a generator that numbers
            # its fresh atoms must still avoid existing labels)
            import re as _re
            for g in gen:
                mm = _re.search(r'(\d+)(\D*)$', g)
                if mm:
                    n0 = int(mm.group(1))
                    for d_ in range(1, 9):
                        extra.append(g[:mm.start(1)] + str(n0 + d_) + mm.group(2))
                else:
                    for d_ in range(0, 12):
                        extra.append('%s#%d' % (g, d_))
                        extra.append('%s%d' % (g, d_))
            Kl = Kripke(S=names, R=R, L=labels(extra))
            snap = lib.snapshot_kripke(Kl)
            res = call(lib.CTLS.modelcheck, Kl, lib.build(f2, lib.CTLS))
            acc.ev(1, 1)
            acc.add('transitions')
            case = {'k': k.to_json(), 'naming': naming, 'labels': 'fresh-exact', 'logic': 'CTLS',
                    'f': spaces.to_jsonable(f2), 'f_str': spaces.fstr(f2), 'F': 0, 'generated': gen[:4]}
            if res[0] != 'ok':
                acc.violation('exception', case, 'a set of states', res[1:])
                continue
            if not isinstance(res[1], set) or not set(res[1]) <= set(names):
                acc.violation('non-state-in-result', case, None, sorted(map(repr, res[1])))
                continue
            inv = dict((repr(x), i) for i, x in enumerate(names))
            got = frozenset(inv[repr(x)] for x in res[1])
            if naming in PLAIN_NAMINGS and got != sem.sat(f):
                acc.violation('wrong-answer', case, sorted(sem.sat(f)), sorted(got))
            if lib.snapshot_kripke(Kl) != snap:
                acc.violation('structure-modified', case)


def run_shard(shard, tier, seed, acc):
    if shard[0] == 'extremes':
        run_extremes(acc)
        acc.sample({'structures': ['Kripke() with no state', 'chains / rings of 1200 and 2500 states']})
        return
    k = graphs()[shard[1]]
    naming = shard[2]
    if naming != 'formula-like':
        run_fresh(k, naming, acc)
        run_shared(k, naming, acc)
    if k.n == 3 or naming not in ('mixed', 'formula-like', 'big-ints'):
        pass
    for scheme in sorted(EXTRA_LABELS):
        if deadline_passed():
            acc.capped()
            return
        run_group(k, naming, scheme, acc)
    acc.sample({'k': k.to_json(), 'naming': naming, 'labels': 'all 5 schemes',
                'history': ['call', 'mutate result', 'call', 'compare']})


def replay(art):
    from ..runner import Acc
    c = art['case']
    acc = Acc()
    if c['labels'] == 'empty-structure' or str(c['labels']).startswith('long-'):
        run_extremes(acc)
        return {'violates': acc.d['nviol'] > 0, 'detail': acc.d['violations'][:1]}
    k = spaces.K.from_json(c['k'])
    if c['labels'] == 'shared-objects':
        run_shared(k, c['naming'], acc)
    elif c['labels'] == 'fresh-exact':
        run_fresh(k, c['naming'], acc)
    else:
        run_group(k, c['naming'], c['labels'], acc)
    want = (c['logic'], c['f_str'], c['F'])
    hits = [v for v in acc.d['violations'] if (v['case']['logic'], v['case']['f_str'], v['case']['F']) == want]
    return {'violates': bool(hits) or acc.d['nviol'] > 0, 'detail': (hits or acc.d['violations'])[:1]}
