"""C14  Kripke structures are always total, fully labelled, and copy faithfully.

Alphabet: S subset of {0,1,2} (or None); R over {0,1,2}^2 (all 512 subsets) plus relations that
          introduce state 3 through R only; S0 in a menu incl. None and non-states; L in a menu of
          dicts (sets/lists/tuples/frozensets as values, keys for non-states, missing keys) or None.
Oracle  : constructor succeeds iff every node of S u ends(R) has an outgoing edge, else
          RuntimeError; labels/S0/next/labels-of-non-state; clone; get_substructure(V) for every V.
"""
import itertools

from .. import lib

from ..common import call, chunks
from ..runner import deadline_passed

from pyModelChecking.kripke import Kripke

RULE = ('all argument combinations (S,S0,R,L) from the stated menus, each once; for every '
        'constructed structure every subset V of its states (+ one with a non-state) for '
        'get_substructure; non-trivial = construction succeeded with >=2 states and a non-empty '
        'label somewhere')
ASSUMPTIONS = ['L is None or a dict whose values are iterables of hashables; V is a set',
               'states are 0..3 (non-state 9) under 4 naming schemes: ints, strings (incl. the empty '
               'string), tuples, mixed int/str/tuple/frozenset']
BUDGET = {'quick': 600, 'thorough': 1800}

S_MENU = [None, (), (0,), (1,), (0, 1), (1, 0), (0, 1, 2), (2, 0)]
S0_MENU = [None, (), (0,), (1, 2), (0, 9), (9,), (0, 1, 2)]
L_MENU = [
    None,
    {},
    {0: {'p'}},
    {0: ['p', 'q'], 1: ()},
    {9: {'p'}},
    {0: frozenset(['p']), 2: ('p', 'q'), 9: ['q']},
    {0: 'p', 1: {'q'}, 2: set(), 3: ['r']},
    {1: ['p', 'p'], 2: {'p', 'q'}},
]


class StateObj(object):
    _pool = {}

    def __init__(self, i):
        self.i = i

    def __repr__(self):
        return 'StateObj<%d>' % self.i


def _obj(i):
    # one object per index within a check (identity-hashed states must be the SAME object wherever
    # the case mentions state i)
    if i not in StateObj._pool:
        StateObj._pool[i] = StateObj(i)
    return StateObj._pool[i]


NAMINGS = {
    'objects': _obj,
    'ints': lambda i: i,
    'strings': lambda i: {0: 'a', 1: 'B', 2: 'zz', 3: '', 9: 'nine'}[i],
    'mixed': lambda i: {0: 0, 1: 'a', 2: (1, 2), 3: frozenset([7]), 9: None if False else ('no', 'state')}[i],
    'tuples': lambda i: ('s', i),
}


def relations(tier):
    pairs3 = [(i, j) for i in range(3) for j in range(3)]
    out = []
    for mask in range(512):
        out.append(tuple(pairs3[b] for b in range(9) if (mask >> b) & 1))
    with3 = [(0, 3), (3, 0), (3, 3), (1, 3), (3, 2)]
    base = [(), ((0, 0),), ((0, 1), (1, 0)), ((0, 1), (1, 2), (2, 0)), ((0, 0), (1, 1), (2, 2)),
            ((1, 1),), ((0, 1),)]
    for b in base:
        for k in (1, 2, 3):
            for extra in itertools.combinations(with3, k):
                out.append(tuple(b) + extra)
    return out


def scope(tier, seed):
    return {'S': len(S_MENU), 'S0': len(S0_MENU), 'L': len(L_MENU), 'R': len(relations(tier)),
            'R order': 'as enumerated and reversed', 'V': 'all subsets of the states (+{9})'}


def plan(tier, seed):
    n = len(relations(tier))
    return [['r', lo, hi] for lo, hi in chunks(n, 8)]


def lab_copy(L):
    if L is None:
        return None
    out = {}
    for k, v in L.items():
        out[k] = v.copy() if isinstance(v, set) else (list(v) if isinstance(v, list) else v)
    return out


def exp_label(L, s):
    if L is None or s not in L:
        return set()
    return set(L[s])


def snap(K):
    return (sorted(lib.next_map(K).keys(), key=repr), sorted(((s, d) for s in lib.next_map(K) for d in lib.next_map(K)[s]), key=repr),
            sorted(((s, sorted(lib.label_map(K)[s], key=repr)) for s in lib.label_map(K)), key=repr),
            sorted(K.S0, key=repr))


def check(S, S0, R, L, acc, naming='ints'):
    nm = NAMINGS[naming]
    case = {'S': None if S is None else list(S), 'S0': None if S0 is None else list(S0),
            'R': [list(e) for e in R], 'L': None if L is None else
            dict((str(k), sorted(v, key=repr)) for k, v in L.items())}
    case['L_index'] = L_MENU.index(L)
    case['naming'] = naming
    # the case stays described over ints; everything below works on the named objects
    S = None if S is None else tuple(nm(x) for x in S)
    S0 = None if S0 is None else tuple(nm(x) for x in S0)
    R = tuple((nm(a), nm(b)) for (a, b) in R)
    L = None if L is None else dict((nm(k), v) for k, v in L.items())
    Larg = lab_copy(L)
    res = call(Kripke, S=None if S is None else list(S), S0=None if S0 is None else list(S0),
               R=list(R), L=Larg)
    nodes = set(S or ()) | set(x for e in R for x in e)
    srcs = set(s for (s, d) in R)
    total = nodes <= srcs
    if not total:
        acc.ev(1, 0)
        if not (res[0] == 'exc' and res[1] == 'RuntimeError'):
            acc.violation('non-total-accepted', case, 'RuntimeError', res if res[0] == 'exc' else 'constructed')
        return
    if res[0] != 'ok':
        acc.ev(1, 0)
        acc.violation('total-rejected', case, 'constructed', res[1:])
        return
    K = res[1]
    nontriv = 1 if (len(nodes) >= 2 and L and any(exp_label(L, s) for s in nodes)) else 0
    acc.ev(1, nontriv)

    def bad(kind, exp=None, got=None, **more):
        c = dict(case)
        c.update(more)
        acc.violation(kind, c, exp, got)

    if set(K.states()) != nodes:
        bad('states', sorted(nodes, key=repr), sorted(K.states(), key=repr))
        return
    if set(K.transitions()) != set(R) or len(list(K.transitions())) != len(set(R)):
        bad('transitions', sorted(set(R), key=repr), sorted(K.transitions(), key=repr))
    expS0 = set(S0 or ()) & nodes
    if not isinstance(K.S0, set) or K.S0 != expS0:
        bad('S0', sorted(expS0, key=repr), sorted(K.S0, key=repr))
    for s in nodes:
        r = call(K.labels, s)
        if r[0] != 'ok' or not isinstance(r[1], set) or r[1] != exp_label(L, s):
            bad('labels', sorted(exp_label(L, s)), r[1:], state=s)
        elif Larg is not None and s in Larg and r[1] is Larg[s]:
            bad('label-set-is-callers-object', state=s)
        r = call(K.next, s)
        if r[0] != 'ok' or set(r[1]) != set(d for (a, d) in R if a == s) or not r[1]:
            bad('next', sorted((d for (a, d) in R if a == s), key=repr), r[1:], state=s)
    if Larg != lab_copy(L):
        bad('constructor-modified-L')
    allab = call(K.labels)
    expall = set()
    for s in nodes:
        expall |= exp_label(L, s)
    if allab[0] != 'ok' or allab[1] != expall:
        bad('labels()', sorted(expall), allab[1:])
    for x in (nm(9), 'zz_', (0, 1), (0, 1, 2), ()):
        for meth in ('labels', 'next'):
            r = call(getattr(K, meth), x)
            if not (r[0] == 'exc' and r[1] == 'RuntimeError'):
                bad('non-state-' + meth, 'RuntimeError', r, state=repr(x))
    # a replaced labelling function may carry keys that are not states (written for a larger model)
    K2 = call(Kripke, S=None if S is None else list(S), S0=None if S0 is None else list(S0), R=list(R), L=lab_copy(L))
    if K2[0] == 'ok' and nodes:
        newL = dict((s, set(['z'])) for s in nodes)
        newL[nm(9)] = set(['ghost'])
        newL['zz_'] = set(['ghost'])
        r = call(K2[1].replace_labelling_function, newL)
        if r[0] == 'ok':
            for x in (nm(9), 'zz_'):
                for meth in ('labels', 'next'):
                    rr = call(getattr(K2[1], meth), x)
                    if not (rr[0] == 'exc' and rr[1] == 'RuntimeError'):
                        bad('non-state-%s-after-replace_labelling_function' % meth, 'RuntimeError', rr, state=repr(x))
            for s in nodes:
                rr = call(K2[1].labels, s)
                if rr[0] != 'ok' or rr[1] != set(['z']):
                    bad('labels-after-replace_labelling_function', ['z'], rr[1:], state=repr(s))
            if set(K2[1].states()) != nodes:
                bad('states-after-replace_labelling_function', sorted(nodes, key=repr), sorted(K2[1].states(), key=repr))
    before = snap(K)
    # clone
    r = call(K.clone)
    acc.ev(1, nontriv)
    if r[0] != 'ok':
        bad('clone-exception', None, r[1:])
    else:
        C = r[1]
        if type(C) is not Kripke or snap(C) != before:
            bad('clone', before, snap(C))
        elif any(lib.label_map(C)[s] is lib.label_map(K)[t] for s in nodes for t in nodes) or \
                any(lib.next_map(C)[s] is lib.next_map(K)[t] for s in nodes for t in nodes) or C.S0 is K.S0:
            bad('clone-shares-sets')
        else:
            if [C.labels(s) for s in sorted(nodes, key=repr)] != [K.labels(s) for s in sorted(nodes, key=repr)]:
                bad('clone-labels-differ')
            for s in nodes:
                C.labels(s).add('zz')
            C.S0.add(nm(9))
            if snap(K) != before:
                bad('clone-mutation-leaks', before, snap(K))
            C2 = K.clone()
            c2 = snap(C2)
            for s in nodes:
                K.labels(s).add('yy')
            if snap(C2) != c2:
                bad('original-mutation-leaks-into-clone', c2, snap(C2))
            for s in nodes:
                K.labels(s).discard('yy')
    # substructures
    nl = sorted(nodes, key=repr)
    for k in range(len(nl) + 1):
        for V in itertools.combinations(nl, k):
            for extra in ((), (nm(9),)):
                Vs = set(V) | set(extra)
                Vcopy = set(Vs)
                if not extra and len(V) == len(nl):
                    # the states view itself and a frozenset are set-like arguments too
                    for form, Varg in (('states-view', K.states()), ('frozenset', frozenset(Vs)),
                                       ('dict-keys', dict((x, 1) for x in Vs).keys())):
                        rv = call(K.get_substructure, Varg)
                        if rv[0] != 'ok' or set(rv[1].states()) != set(V):
                            bad('substructure-%s-argument' % form, sorted(V, key=repr), rv[1:] if rv[0] != 'ok'
                                else sorted(rv[1].states(), key=repr))
                expE = set((s, d) for (s, d) in R if s in V and d in V)
                tot = set(V) <= set(s for (s, d) in expE)
                r = call(K.get_substructure, Vs)
                acc.ev(1, nontriv if 0 < len(V) < len(nl) else 0)
                if not tot:
                    if not (r[0] == 'exc' and r[1] == 'RuntimeError'):
                        bad('substructure-non-total-accepted', 'RuntimeError',
                            r if r[0] == 'exc' else 'constructed', V=sorted(Vs, key=repr))
                    continue
                if r[0] != 'ok':
                    bad('substructure-total-rejected', 'constructed', r[1:], V=sorted(Vs, key=repr))
                    continue
                Sb = r[1]
                exp = (sorted(V, key=repr), sorted(expE, key=repr),
                       sorted(((s, sorted(exp_label(L, s), key=repr)) for s in V), key=repr),
                       sorted(expS0 & set(V), key=repr))
                if type(Sb) is not Kripke or snap(Sb) != exp:
                    bad('substructure', exp, snap(Sb), V=sorted(Vs, key=repr))
                elif any(lib.label_map(Sb)[s] is lib.label_map(K)[t] for s in V for t in nodes):
                    bad('substructure-shares-label-sets', V=sorted(Vs, key=repr))
                if Vs != Vcopy:
                    bad('substructure-modifies-V', V=sorted(Vcopy, key=repr))
    if snap(K) != before:
        bad('structure-modified', before, snap(K))


def run_shard(shard, tier, seed, acc):
    rels = relations(tier)[shard[1]:shard[2]]
    for R in rels:
        if deadline_passed():
            acc.capped()
            return
        variants = [R] if len(R) < 2 else [R, tuple(reversed(R))]
        if R:
            # R is "a collection of edges": a list may name a pair twice
            variants.append(tuple(R) + (R[0],))
            variants.append((R[-1],) + tuple(R) + (R[-1], R[0]))
        for Rv in variants:
            for S in S_MENU:
                for S0 in S0_MENU:
                    for L in L_MENU:
                        check(S, S0, Rv, L, acc)
        # heterogeneous / non-int state objects: same oracle on a thinner slice of the menus
        for naming in ('strings', 'mixed', 'tuples', 'objects'):
            for S in S_MENU[::2]:
                for S0 in S0_MENU[::3]:
                    for L in L_MENU[::2]:
                        check(S, S0, R, L, acc, naming)
    acc.sample({'S': [0, 1], 'S0': [0, 9], 'R': [list(e) for e in rels[0]],
                'L': {'0': ['p', 'q'], '1': []}})


def replay(art):
    from ..runner import Acc
    c = art['case']
    acc = Acc()
    L = L_MENU[c['L_index']]
    check(None if c['S'] is None else tuple(c['S']), None if c['S0'] is None else tuple(c['S0']),
          tuple(tuple(e) for e in c['R']), L, acc, c.get('naming', 'ints'))
    return {'violates': acc.d['nviol'] > 0, 'detail': acc.d['violations'][:2]}
