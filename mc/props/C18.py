"""C18  Expression and lambda notation build the same OBDD; printing round-trips.

Alphabet: all expressions of depth<=2 over a,b,c,0,1 x every permutation of their variable list and
          supersets with unused variables; every Boolean function of 3 variables (4 in thorough)
          under every ordering for the print round trip; word spellings and/or/not; error menu.
Oracle  : OBDD equality as defined by the library (root identity + ordering) AND truth tables.
"""
import itertools

from ..refbdd import TT, exprs, render, expr_vars
from ..common import call, chunks
from ..runner import deadline_passed

from pyModelChecking.BDD import OBDD

RULE = ('expressions of depth<=2 each once x all argument orders; all Boolean functions of n '
        'variables x all orderings for print/parse round trips; non-trivial = the denoted '
        'function is not constant')
ASSUMPTIONS = ['reference: truth tables; equality is the library\'s OBDD.__eq__ cross-checked by '
               'root identity and truth table']
BUDGET = {'quick': 600, 'thorough': 3600}
V3 = ['a', 'b', 'c']
V4 = ['a', 'b', 'c', 'd']

SYNTAX_ERRORS = ['a + b', 'a if b else c', '2', 'f(a)', 'a < b', 'a - b', 'a * b', '[a]', 'a.b',
                 '"a"', 'a == b', '3 & a', 'a & 2', 'a b', '', '(', 'a &', 'lambda a: a',
                 '-a', '+a', 'a & -b', 'not -a', '~+a', 'a or -b', 'a @ b', 'a >> b', 'a[0]',
                 'a & None', 'a & "x"', 'a ** b', 'a // b', 'a % b', 'a << b', 'a & (b, c)',
                 '{a}', 'a & [b]', 'a is b', 'a in b', 'a & (b < c)', '~(a + b)', 'not (a - b)']
SYNTAX_ERRORS_LAMBDA = ['lambda a,b: a + b', 'lambda a: a if a else 0', 'lambda a: 2',
                        'lambda a: f(a)', 'lambda a,b: a < b', 'lambda a: ', 'a & b', '',
                        'lambda a: -a', 'lambda a,b: a & +b', 'lambda a: a[0]', 'lambda a,b: a @ b']


def scope(tier, seed):
    d = {'lambda': 'every expression of depth<=2 over a,b,c,0,1 (7320) x every permutation of its '
                   'variables (+ one unused variable in every position)',
         'print': 'all 256 functions of 3 variables x 6 orderings: str(o.root) and str(o) re-parsed',
         'synonyms': 'every expression of depth<=2 spelled with and/or/not/True/False',
         'flat': '%d unparenthesised n-ary chains / mixed-precedence strings over a,b,c,d judged '
                 'against Python\'s own evaluation of the same string' % len(flat_exprs()),
         'errors': 'every expression with one variable removed from the ordering / lambda list; '
                   '%d non-Boolean inputs' % (len(SYNTAX_ERRORS) + len(SYNTAX_ERRORS_LAMBDA))}
    if tier == 'thorough':
        d['print4'] = 'all 65536 functions of 4 variables x all 24 orderings'
    return d


class B(object):
    """Python-level Boolean with &,|,~ so that Python's own grammar/precedence is the reference."""

    def __init__(self, v):
        self.v = bool(v)

    def __and__(self, o):
        return B(self.v and B.of(o).v)

    __rand__ = __and__

    def __or__(self, o):
        return B(self.v or B.of(o).v)

    __ror__ = __or__

    def __invert__(self):
        return B(not self.v)

    def __bool__(self):
        return self.v

    @staticmethod
    def of(o):
        return o if isinstance(o, B) else B(o)


def py_truth_table(text, args):
    """Truth table of a flat expression string by Python's own evaluation."""
    import re
    # constants 0/1 must behave as Booleans under ~
    t = re.sub(r'\b([01])\b', r'B(\1)', text)
    t = re.sub(r'\bTrue\b', 'B(1)', t)
    t = re.sub(r'\bFalse\b', 'B(0)', t)
    out = []
    for a in itertools.product((0, 1), repeat=len(args)):
        env = dict((v, B(x)) for v, x in zip(args, a))
        env['B'] = B
        out.append(bool(eval(t, {'__builtins__': {}}, env)))
    return tuple(out)


def flat_exprs():
    """Unparenthesised n-ary chains and mixed-precedence expressions (n-ary BoolOp, & vs |, not)."""
    lits = ['a', 'b', 'c', '~a', '~c', 'not b', '0', '1']
    out = []
    for n in (3, 4):
        for combo in itertools.product(lits if n == 3 else ['a', 'b', '~c', 'not a', 'd', '1'], repeat=n):
            for sep in (' and ', ' or ', ' & ', ' | '):
                if 'not' in ''.join(combo) and sep in (' & ', ' | '):
                    continue
                out.append(sep.join(combo))
    for x, y, z in itertools.permutations(['a', 'b', 'c', 'not a', '~b'], 3):
        for s1, s2 in itertools.product([' and ', ' or ', ' & ', ' | '], repeat=2):
            if ('not' in x + y + z) and ('&' in s1 + s2 or '|' in s1 + s2):
                continue
            out.append(x + s1 + y + s2 + z)
    out += ['a & True', 'True & a | b', 'a | False', '(a & True) | (False & b)', 'not True or a', '~False & a',
            'a and True and b', 'False or a or False', 'not a and b', 'not a or b and c', 'not (a or b) and c', '~a & b | c & ~d', 'a | b & c | d',
            'a and b and c and d and a', 'a or b or c or d or ~a', 'not not a', '~~a & b',
            'a and (b or c or d)', '(a and b and c) or (b and c and d)', 'a & b & c & d', 'a | b | c | d']
    return out


def plan(tier, seed):
    n = len(exprs(2, V3))
    sh = [['lam', lo, hi] for lo, hi in chunks(n, 256)]
    nf = len(flat_exprs())
    sh += [['flat', lo, hi] for lo, hi in chunks(nf, 256)]
    sh += [['print3', oi] for oi in range(6)]
    sh += [['printnode', oi] for oi in range(6)]
    sh.append(['errors'])
    if tier == 'thorough':
        for oi in range(24):
            for lo, hi in chunks(65536, 4096):
                sh.append(['print4', oi, lo, hi])
    return sh


def eq(o1, o2):
    r = call(lambda: o1 == o2)
    return r[0] == 'ok' and r[1] is True and o1.root is o2.root


def run_shard(shard, tier, seed, acc):
    kind = shard[0]
    if kind == 'lam':
        tt = TT(V3)
        for e in exprs(2, V3)[shard[1]:shard[2]]:
            if deadline_passed():
                acc.capped()
                return
            vs = sorted(expr_vars(e))
            s = render(e)
            w = render(e, 'word')
            want_nontriv = None
            arglists = [list(p) for p in itertools.permutations(vs)]
            for p in itertools.permutations(vs):
                for pos in range(len(p) + 1):
                    arglists.append(list(p[:pos]) + ['u'] + list(p[pos:]))
            for args in arglists:
                case = {'expr': s, 'args': args}
                ttx = TT(args)
                want = ttx.of_expr(e)
                nontriv = 1 if (any(want) and not all(want)) else 0
                ro = call(OBDD, s, list(args))
                rl = call(OBDD, 'lambda %s: %s' % (','.join(args), s))
                acc.ev(1, nontriv)
                if ro[0] != 'ok':
                    acc.violation('expr-exception', case, None, ro[1:])
                    continue
                if rl[0] != 'ok':
                    acc.violation('lambda-exception', case, None, rl[1:])
                    continue
                if not eq(rl[1], ro[1]) or ttx.of_node(rl[1].root) != want:
                    acc.violation('lambda-differs', case, str(ro[1]), str(rl[1]))
                # word spelling
                rw = call(OBDD, w, list(args))
                rwl = call(OBDD, 'lambda %s: %s' % (','.join(args), w))
                acc.ev(1, nontriv)
                if rw[0] != 'ok' or rwl[0] != 'ok':
                    acc.violation('synonym-exception', dict(case, word=w), None,
                                  (rw if rw[0] != 'ok' else rwl)[1:])
                elif not eq(rw[1], ro[1]) or not eq(rwl[1], ro[1]):
                    acc.violation('synonym-differs', dict(case, word=w), str(ro[1]), str(rw[1]))
            # missing variable => RuntimeError (expression and lambda forms)
            for v in vs:
                rest = [x for x in vs if x != v]
                r1 = call(OBDD, s, list(rest))
                r2 = call(OBDD, 'lambda %s: %s' % (','.join(rest), s))
                acc.ev(1, 1)
                for r, form in ((r1, 'expr'), (r2, 'lambda')):
                    if not (r[0] == 'exc' and r[1] == 'RuntimeError'):
                        acc.violation('missing-variable-accepted',
                                      {'expr': s, 'args': rest, 'form': form}, 'RuntimeError', r[:2])
        acc.sample({'expr': render(exprs(2, V3)[shard[1]]), 'lambda args': 'all permutations (+unused u)'})
        return
    if kind == 'flat':
        args = ['a', 'b', 'c', 'd']
        ttx = TT(args)
        for text in flat_exprs()[shard[1]:shard[2]]:
            want = py_truth_table(text, args)
            nontriv = 1 if (any(want) and not all(want)) else 0
            case = {'expr': text, 'args': args, 'flat': True}
            for form, r in (('expr', call(OBDD, text, list(args))),
                            ('lambda', call(OBDD, 'lambda a,b,c,d: ' + text))):
                acc.ev(1, nontriv)
                if r[0] != 'ok':
                    acc.violation('flat-exception', dict(case, form=form), None, r[1:])
                elif ttx.of_node(r[1].root) != want:
                    acc.violation('flat-wrong-function', dict(case, form=form), [int(x) for x in want],
                                  [int(x) for x in ttx.of_node(r[1].root)])
            # a variable missing from the ordering must raise even deep in a chain
            used = [v for v in args if __import__('re').search(r'\b%s\b' % v, text)]
            for v in used:
                rest = [x for x in args if x != v]
                r = call(OBDD, text, rest)
                acc.ev(1, 1)
                if not (r[0] == 'exc' and r[1] == 'RuntimeError'):
                    acc.violation('missing-variable-accepted', {'expr': text, 'args': rest, 'form': 'expr'},
                                  'RuntimeError', r[:2])
        acc.sample({'expr': flat_exprs()[shard[1]], 'reference': "Python's own evaluation of the string"})
        return
    if kind in ('print3', 'print4'):
        V = V3 if kind == 'print3' else V4
        tt = TT(V)
        order = list(list(itertools.permutations(V))[shard[1]])
        funcs = list(tt.all_functions())
        if kind == 'print4':
            funcs = funcs[shard[2]:shard[3]]
        for t in funcs:
            if deadline_passed():
                acc.capped()
                return
            caller_list = list(order)
            o = OBDD(tt.dnf(t), caller_list)
            # the caller keeps using (and changing) the list it passed in
            caller_list.reverse()
            caller_list.append('unused_%d' % len(caller_list))
            nontriv = 1 if (any(t) and not all(t)) else 0
            case = {'vars': V, 'order': order, 'f': [int(x) for x in t]}
            s_root = str(o.root)
            s_full = str(o)
            if not s_full.startswith('lambda %s:' % ','.join(order)):
                acc.violation('print-full-differs', dict(case, printed=s_full, note='ordering list was mutated by '
                                                         'the caller after construction'), 'lambda %s: ...' % ','.join(order), s_full)
            r1 = call(OBDD, s_root, list(order))
            r2 = call(OBDD, s_full)
            acc.ev(2, 2 * nontriv)
            if r1[0] != 'ok':
                acc.violation('print-root-exception', dict(case, printed=s_root), None, r1[1:])
            elif not eq(r1[1], o) or tt.of_node(r1[1].root) != t:
                acc.violation('print-root-differs', dict(case, printed=s_root), None,
                              [int(x) for x in tt.of_node(r1[1].root)])
            if r2[0] != 'ok':
                acc.violation('print-full-exception', dict(case, printed=s_full), None, r2[1:])
            elif not eq(r2[1], o) or tt.of_node(r2[1].root) != t:
                acc.violation('print-full-differs', dict(case, printed=s_full), None,
                              [int(x) for x in tt.of_node(r2[1].root)])
        acc.sample({'order': order, 'printed': str(OBDD('(a & b) | c', order))})
        return
    if kind == 'printnode':
        # diagrams built node by node through the BDDNode constructor, the variable names being strings
        # computed at run time (equal to, but not the same objects as, the names a parser produces);
        # printing and parsing back must give the very same diagram
        from pyModelChecking.BDD import BDDNode
        V = ['x%d' % i for i in (1, 2, 3)]
        tt = TT(V)
        order = list(list(itertools.permutations(V))[shard[1]])

        def mk(t, k):
            if all(t):
                return BDDNode(1)
            if not any(t):
                return BDDNode(0)
            v = order[k]
            name = 'x%d' % int(v[1:])          # a new str object each time
            return BDDNode(name, mk(tt.cofactor(t, v, 0), k + 1), mk(tt.cofactor(t, v, 1), k + 1))
        for t in tt.all_functions():
            nontriv = 1 if (any(t) and not all(t)) else 0
            case = {'vars': V, 'order': order, 'f': [int(x) for x in t], 'built': 'BDDNode constructor'}
            r0 = call(lambda: OBDD(mk(t, 0), ['x%d' % int(v[1:]) for v in order]))
            acc.ev(2, 2 * nontriv)
            if r0[0] != 'ok' or tt.of_node(r0[1].root) != t:
                acc.violation('node-built-diagram-wrong', case, None, r0[1:] if r0[0] != 'ok' else None)
                continue
            o = r0[1]
            s_root, s_full = str(o.root), str(o)
            r1 = call(OBDD, s_root, list(order))
            r2 = call(OBDD, s_full)
            if r1[0] != 'ok':
                acc.violation('print-root-exception', dict(case, printed=s_root), None, r1[1:])
            elif not eq(r1[1], o) or tt.of_node(r1[1].root) != t:
                acc.violation('print-root-differs', dict(case, printed=s_root), None,
                              [int(x) for x in tt.of_node(r1[1].root)])
            if r2[0] != 'ok':
                acc.violation('print-full-exception', dict(case, printed=s_full), None, r2[1:])
            elif not eq(r2[1], o) or tt.of_node(r2[1].root) != t:
                acc.violation('print-full-differs', dict(case, printed=s_full), None,
                              [int(x) for x in tt.of_node(r2[1].root)])
        return
    if kind == 'errors':
        for s in SYNTAX_ERRORS:
            for order in (['a', 'b', 'c', 'f'], ['b', 'a']):
                r = call(OBDD, s, order)
                acc.ev(1, 1)
                if not (r[0] == 'exc' and r[1] == 'SyntaxError'):
                    acc.violation('non-boolean-accepted', {'expr': s, 'args': order},
                                  'SyntaxError', r[:2])
        for s in SYNTAX_ERRORS_LAMBDA:
            r = call(OBDD, s)
            acc.ev(1, 1)
            if not (r[0] == 'exc' and r[1] == 'SyntaxError'):
                acc.violation('non-boolean-accepted', {'expr': s, 'args': None}, 'SyntaxError', r[:2])
        return
    raise ValueError(shard)


def replay(art):
    c = art['case']
    kind = art['kind']
    if kind.startswith('print') or kind == 'node-built-diagram-wrong':
        tt = TT(c['vars'])
        t = tuple(bool(x) for x in c['f'])
        if c.get('built'):
            from ..runner import Acc
            acc = Acc()
            oi = [list(x) for x in itertools.permutations(c['vars'])].index(list(c['order']))
            run_shard(['printnode', oi], 'quick', 0, acc)
            hits = [v for v in acc.d['violations'] if v['case'].get('f') == c['f']]
            return {'violates': bool(hits), 'detail': hits[:1]}
        o = OBDD(tt.dnf(t), list(c['order']))
        if 'root' in kind:
            r = call(OBDD, str(o.root), list(c['order']))
        else:
            r = call(OBDD, str(o))
        bad = r[0] != 'ok' or not eq(r[1], o) or tt.of_node(r[1].root) != t
        return {'violates': bad, 'printed': str(o), 'got': r[1:] if r[0] != 'ok' else str(r[1])}
    if kind == 'non-boolean-accepted':
        r = call(OBDD, c['expr'], c['args']) if c['args'] is not None else call(OBDD, c['expr'])
        return {'violates': not (r[0] == 'exc' and r[1] == 'SyntaxError'), 'got': r[:2]}
    if kind == 'missing-variable-accepted':
        if c['form'] == 'expr':
            r = call(OBDD, c['expr'], list(c['args']))
        else:
            r = call(OBDD, 'lambda %s: %s' % (','.join(c['args']), c['expr']))
        return {'violates': not (r[0] == 'exc' and r[1] == 'RuntimeError'), 'got': r[:2]}
    args = c['args']
    if kind.startswith('flat'):
        ttx = TT(args)
        want = py_truth_table(c['expr'], args)
        r = call(OBDD, c['expr'], list(args)) if c['form'] == 'expr' else \
            call(OBDD, 'lambda a,b,c,d: ' + c['expr'])
        bad = r[0] != 'ok' or ttx.of_node(r[1].root) != want
        return {'violates': bad, 'expected': [int(x) for x in want],
                'got': r[1:] if r[0] != 'ok' else [int(x) for x in ttx.of_node(r[1].root)]}
    ro = call(OBDD, c['expr'], list(args))
    if kind.startswith('synonym'):
        rl = call(OBDD, c['word'], list(args))
        rl2 = call(OBDD, 'lambda %s: %s' % (','.join(args), c['word']))
        bad = ro[0] != 'ok' or rl[0] != 'ok' or rl2[0] != 'ok' or not eq(rl[1], ro[1]) \
            or not eq(rl2[1], ro[1])
        return {'violates': bad, 'got': [x[:2] if x[0] != 'ok' else str(x[1]) for x in (ro, rl, rl2)]}
    rl = call(OBDD, 'lambda %s: %s' % (','.join(args), c['expr']))
    bad = ro[0] != 'ok' or rl[0] != 'ok' or not eq(rl[1], ro[1])
    return {'violates': bad, 'got': [x[:2] if x[0] != 'ok' else str(x[1]) for x in (ro, rl)]}
