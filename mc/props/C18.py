"""C18  Expression and lambda notation build the same OBDD; printing round-trips.

Alphabet: all expressions of depth<=2 over a,b,c,0,1 x every permutation of their variable list and
          supersets with unused variables; every Boolean function of 3 variables (4 in thorough)
          under every ordering for the print round trip; word spellings and/or/not; error menu.
Oracle  : OBDD equality as defined by the library (root identity + ordering) AND truth tables.
"""
import itertools

from ..refbdd import TT, exprs, render, expr_vars
from ..common import call, chunks
from ..runner import deadline_passed

from pyModelChecking.BDD import OBDD

RULE = ('expressions of depth<=2 each once x all argument orders; all Boolean functions of n '
        'variables x all orderings for print/parse round trips; non-trivial = the denoted '
        'function is not constant')
ASSUMPTIONS = ['reference: truth tables; equality is the library\'s OBDD.__eq__ cross-checked by '
               'root identity and truth table']
BUDGET = {'quick': 600, 'thorough': 3600}
V3 = ['a', 'b', 'c']
V4 = ['a', 'b', 'c', 'd']

SYNTAX_ERRORS = ['a + b', 'a if b else c', '2', 'f(a)', 'a < b', 'a - b', 'a * b', '[a]', 'a.b',
                 '"a"', 'a == b', '3 & a', 'a & 2', 'a b', '', '(', 'a &', 'lambda a: a',
                 '-a', '+a', 'a & -b', 'not -a', '~+a', 'a or -b', 'a @ b', 'a >> b', 'a[0]',
                 'a & None', 'a & "x"', 'a ** b', 'a // b', 'a % b', 'a << b', 'a & (b, c)',
                 '{a}', 'a & [b]', 'a is b', 'a in b', 'a & (b < c)', '~(a + b)', 'not (a - b)']
SYNTAX_ERRORS_LAMBDA = ['lambda a,b: a + b', 'lambda a: a if a else 0', 'lambda a: 2',
                        'lambda a: f(a)', 'lambda a,b: a < b', 'lambda a: ', 'a & b', '',
                        'lambda a: -a', 'lambda a,b: a & +b', 'lambda a: a[0]', 'lambda a,b: a @ b']


def scope(tier, seed):
    d = {'lambda': 'every expression of depth<=2 over a,b,c,0,1 (7320) x every permutation of its '
                   'variables (+ one unused variable in every position)',
         'print': 'all 256 functions of 3 variables x 6 orderings: str(o.root) and str(o) re-parsed',
         'synonyms': 'every expression of depth<=2 spelled with and/or/not/True/False',
         'errors': 'every expression with one variable removed from the ordering / lambda list; '
                   '%d non-Boolean inputs' % (len(SYNTAX_ERRORS) + len(SYNTAX_ERRORS_LAMBDA))}
    if tier == 'thorough':
        d['print4'] = 'all 65536 functions of 4 variables x all 24 orderings'
    return d


def plan(tier, seed):
    n = len(exprs(2, V3))
    sh = [['lam', lo, hi] for lo, hi in chunks(n, 256)]
    sh += [['print3', oi] for oi in range(6)]
    sh.append(['errors'])
    if tier == 'thorough':
        for oi in range(24):
            for lo, hi in chunks(65536, 4096):
                sh.append(['print4', oi, lo, hi])
    return sh


def eq(o1, o2):
    r = call(lambda: o1 == o2)
    return r[0] == 'ok' and r[1] is True and o1.root is o2.root


def run_shard(shard, tier, seed, acc):
    kind = shard[0]
    if kind == 'lam':
        tt = TT(V3)
        for e in exprs(2, V3)[shard[1]:shard[2]]:
            if deadline_passed():
                acc.capped()
                return
            vs = sorted(expr_vars(e))
            s = render(e)
            w = render(e, 'word')
            want_nontriv = None
            arglists = [list(p) for p in itertools.permutations(vs)]
            for p in itertools.permutations(vs):
                for pos in range(len(p) + 1):
                    arglists.append(list(p[:pos]) + ['u'] + list(p[pos:]))
            for args in arglists:
                case = {'expr': s, 'args': args}
                ttx = TT(args)
                want = ttx.of_expr(e)
                nontriv = 1 if (any(want) and not all(want)) else 0
                ro = call(OBDD, s, list(args))
                rl = call(OBDD, 'lambda %s: %s' % (','.join(args), s))
                acc.ev(1, nontriv)
                if ro[0] != 'ok':
                    acc.violation('expr-exception', case, None, ro[1:])
                    continue
                if rl[0] != 'ok':
                    acc.violation('lambda-exception', case, None, rl[1:])
                    continue
                if not eq(rl[1], ro[1]) or ttx.of_node(rl[1].root) != want:
                    acc.violation('lambda-differs', case, str(ro[1]), str(rl[1]))
                # word spelling
                rw = call(OBDD, w, list(args))
                rwl = call(OBDD, 'lambda %s: %s' % (','.join(args), w))
                acc.ev(1, nontriv)
                if rw[0] != 'ok' or rwl[0] != 'ok':
                    acc.violation('synonym-exception', dict(case, word=w), None,
                                  (rw if rw[0] != 'ok' else rwl)[1:])
                elif not eq(rw[1], ro[1]) or not eq(rwl[1], ro[1]):
                    acc.violation('synonym-differs', dict(case, word=w), str(ro[1]), str(rw[1]))
            # missing variable => RuntimeError (expression and lambda forms)
            for v in vs:
                rest = [x for x in vs if x != v]
                r1 = call(OBDD, s, list(rest))
                r2 = call(OBDD, 'lambda %s: %s' % (','.join(rest), s))
                acc.ev(1, 1)
                for r, form in ((r1, 'expr'), (r2, 'lambda')):
                    if not (r[0] == 'exc' and r[1] == 'RuntimeError'):
                        acc.violation('missing-variable-accepted',
                                      {'expr': s, 'args': rest, 'form': form}, 'RuntimeError', r[:2])
        acc.sample({'expr': render(exprs(2, V3)[shard[1]]), 'lambda args': 'all permutations (+unused u)'})
        return
    if kind in ('print3', 'print4'):
        V = V3 if kind == 'print3' else V4
        tt = TT(V)
        order = list(list(itertools.permutations(V))[shard[1]])
        funcs = list(tt.all_functions())
        if kind == 'print4':
            funcs = funcs[shard[2]:shard[3]]
        for t in funcs:
            if deadline_passed():
                acc.capped()
                return
            o = OBDD(tt.dnf(t), order)
            nontriv = 1 if (any(t) and not all(t)) else 0
            case = {'vars': V, 'order': order, 'f': [int(x) for x in t]}
            s_root = str(o.root)
            s_full = str(o)
            r1 = call(OBDD, s_root, list(order))
            r2 = call(OBDD, s_full)
            acc.ev(2, 2 * nontriv)
            if r1[0] != 'ok':
                acc.violation('print-root-exception', dict(case, printed=s_root), None, r1[1:])
            elif not eq(r1[1], o) or tt.of_node(r1[1].root) != t:
                acc.violation('print-root-differs', dict(case, printed=s_root), None,
                              [int(x) for x in tt.of_node(r1[1].root)])
            if r2[0] != 'ok':
                acc.violation('print-full-exception', dict(case, printed=s_full), None, r2[1:])
            elif not eq(r2[1], o) or tt.of_node(r2[1].root) != t:
                acc.violation('print-full-differs', dict(case, printed=s_full), None,
                              [int(x) for x in tt.of_node(r2[1].root)])
        acc.sample({'order': order, 'printed': str(OBDD('(a & b) | c', order))})
        return
    if kind == 'errors':
        for s in SYNTAX_ERRORS:
            for order in (['a', 'b', 'c', 'f'], ['b', 'a']):
                r = call(OBDD, s, order)
                acc.ev(1, 1)
                if not (r[0] == 'exc' and r[1] == 'SyntaxError'):
                    acc.violation('non-boolean-accepted', {'expr': s, 'args': order},
                                  'SyntaxError', r[:2])
        for s in SYNTAX_ERRORS_LAMBDA:
            r = call(OBDD, s)
            acc.ev(1, 1)
            if not (r[0] == 'exc' and r[1] == 'SyntaxError'):
                acc.violation('non-boolean-accepted', {'expr': s, 'args': None}, 'SyntaxError', r[:2])
        return
    raise ValueError(shard)


def replay(art):
    c = art['case']
    kind = art['kind']
    if kind.startswith('print'):
        tt = TT(c['vars'])
        t = tuple(bool(x) for x in c['f'])
        o = OBDD(tt.dnf(t), list(c['order']))
        if 'root' in kind:
            r = call(OBDD, str(o.root), list(c['order']))
        else:
            r = call(OBDD, str(o))
        bad = r[0] != 'ok' or not eq(r[1], o) or tt.of_node(r[1].root) != t
        return {'violates': bad, 'printed': str(o), 'got': r[1:] if r[0] != 'ok' else str(r[1])}
    if kind == 'non-boolean-accepted':
        r = call(OBDD, c['expr'], c['args']) if c['args'] is not None else call(OBDD, c['expr'])
        return {'violates': not (r[0] == 'exc' and r[1] == 'SyntaxError'), 'got': r[:2]}
    if kind == 'missing-variable-accepted':
        if c['form'] == 'expr':
            r = call(OBDD, c['expr'], list(c['args']))
        else:
            r = call(OBDD, 'lambda %s: %s' % (','.join(c['args']), c['expr']))
        return {'violates': not (r[0] == 'exc' and r[1] == 'RuntimeError'), 'got': r[:2]}
    args = c['args']
    ro = call(OBDD, c['expr'], list(args))
    if kind.startswith('synonym'):
        rl = call(OBDD, c['word'], list(args))
        rl2 = call(OBDD, 'lambda %s: %s' % (','.join(args), c['word']))
        bad = ro[0] != 'ok' or rl[0] != 'ok' or rl2[0] != 'ok' or not eq(rl[1], ro[1]) \
            or not eq(rl2[1], ro[1])
        return {'violates': bad, 'got': [x[:2] if x[0] != 'ok' else str(x[1]) for x in (ro, rl, rl2)]}
    rl = call(OBDD, 'lambda %s: %s' % (','.join(args), c['expr']))
    bad = ro[0] != 'ok' or rl[0] != 'ok' or not eq(rl[1], ro[1])
    return {'violates': bad, 'got': [x[:2] if x[0] != 'ok' else str(x[1]) for x in (ro, rl)]}
