"""C16  Equal Boolean functions share one OBDD under every creation / drop / GC history.

Explicit-state breadth-first search over histories of the process-global BDD node store.
Transitions call the real library on real objects; every state is rebuilt by replaying its
history from an empty store; a truth-table dict is the reference model of the slots.
"""
import collections
import gc
import itertools

from ..refbdd import TT, eval_expr
from ..common import call
from ..runner import deadline_passed

from pyModelChecking.BDD import OBDD, BDDNode
from pyModelChecking.BDD.BDD import BDDNonTerminalNode, BDDTerminalNode

RULE = ('breadth-first search over operation histories (build from an expression menu, apply &,|,^, '
        'negate, restrict, grab a child of the root into a slot, drop a slot, gc.collect) on k slots '
        'of OBDDs over n variables; states are deduplicated by (slot truth tables, multiset of '
        '(variable, truth table) of all live non-terminal nodes); every transition is executed on '
        'the real library by replaying the history from an empty store; non-trivial state = some '
        'live node is not referenced by any slot root path or two slots hold equal functions; plus the '
        'crowd family: every population size N up to a bound x member shape x drop pattern x re-creation '
        'route, each one deterministic history on the real store')
ASSUMPTIONS = ['CPython reference counting frees dropped diagrams immediately (gc disabled during '
               'the search, gc.collect is an explicit operation; a free-running pass repeats the '
               'search with the generational collector at threshold 1)',
               'state merging: the store behaves as a function of the live nodes and their parent '
               'links; weak parent sets are checked to contain exactly the live parents']
BUDGET = {'quick': 900, 'thorough': 5400}

VARS = ['x1', 'x2', 'x3']   # multi-character names: equal strings need not be identical objects
MENU2 = ['x1', 'x2', '~x1', 'x1 & x2', 'x1 | x2', '(x1 & ~x2) | (~x1 & x2)', '0', '1', 'x1 and x2 and not x1',
         'x1 or not x2 or 0']
MENU3 = MENU2 + ['x3', '(x1 & x2) | x3', '(x1 | x2) & ~x3', 'x2 & x3', '(x1 & x3) | (~x1 & x2)', 'x1 and x2 and x3',
                 'x1 or x2 or x3 or not x1']


def configs(tier):
    cfg = []
    for o in itertools.permutations(VARS[:2]):
        cfg.append({'nv': 2, 'ns': 2, 'order': list(o), 'depth': 99, 'gc_free': False})
    for o in itertools.permutations(VARS[:3]):
        cfg.append({'nv': 3, 'ns': 2, 'order': list(o), 'depth': 3 if tier == 'quick' else 4,
                    'gc_free': False})
    cfg.append({'nv': 2, 'ns': 2, 'order': list(VARS[:2]), 'depth': 99, 'gc_free': True})
    # a diagram over another ordering of the same variables lives in the same process-global store
    cfg.append({'nv': 2, 'ns': 1, 'order': list(VARS[:2]), 'depth': 99, 'gc_free': False,
                'foreign': list(VARS[:2])[::-1]})
    cfg.append({'nv': 2, 'ns': 2, 'order': list(VARS[:2])[::-1], 'depth': 3 if tier == 'quick' else 4,
                'gc_free': False, 'foreign': list(VARS[:2])})
    cfg.append({'nv': 3, 'ns': 1, 'order': list(VARS[:3]), 'depth': 3 if tier == 'quick' else 4,
                'gc_free': False, 'foreign': [VARS[2], VARS[0], VARS[1]]})
    if tier == 'quick':
        cfg.append({'nv': 2, 'ns': 3, 'order': list(VARS[:2]), 'depth': 3, 'gc_free': False})
    else:
        cfg.append({'nv': 2, 'ns': 3, 'order': list(VARS[:2]), 'depth': 4, 'gc_free': False})
        cfg.append({'nv': 2, 'ns': 3, 'order': list(VARS[:2])[::-1], 'depth': 4, 'gc_free': False})
        cfg.append({'nv': 3, 'ns': 2, 'order': list(VARS[:3]), 'depth': 3, 'gc_free': True})
    return cfg


def scope(tier, seed):
    return {'configurations': configs(tier), 'depth 99': 'search to closure (all reachable states)',
            'crowd': {'sizes': 'every N in 1..%d' % CROWD_MAX[tier], 'kinds': CROWD_KINDS,
                      'drop patterns': CROWD_DROPS, 'routes': ['text', 'ops']}}


def plan(tier, seed):
    return [['bfs', i] for i in range(len(configs(tier)))] + \
        [['crowd', kind, blk] for kind in CROWD_KINDS for blk in range(CROWD_BLOCKS)]


# ---- crowded store: many diagrams alive at once ------------------------------------------------
# The breadth-first search keeps at most three diagrams alive, so every parent set of the store is
# short.  This family holds N diagrams alive together (N = every size up to CROWD_MAX), which makes
# the parent sets of the terminals and of one shared inner node N long, applies one of the drop
# patterns, re-creates every member by text and by operators, and demands the identical root for
# every surviving member and the store invariant (one live node per (variable, low, high)).
CROWD_MAX = {'quick': 160, 'thorough': 400}
CROWD_BLOCKS = 8
CROWD_KINDS = ['lit', 'neglit', 'and-last', 'or-last', 'xor-last']
CROWD_DROPS = ['none', 'even', 'odd', 'first-half', 'all-but-last']


def crowd_expr(kind, v, last):
    return {'lit': v, 'neglit': '~' + v, 'and-last': '%s & %s' % (v, last),
            'or-last': '%s | %s' % (v, last), 'xor-last': '(%s & ~%s) | (~%s & %s)' % (v, last, v, last)}[kind]


def crowd_by_ops(kind, v, last, order):
    a, b = OBDD(v, order), OBDD(last, order)
    return {'lit': lambda: a, 'neglit': lambda: ~a, 'and-last': lambda: a & b,
            'or-last': lambda: a | b, 'xor-last': lambda: a ^ b}[kind]()


def crowd_case(kind, n, drop, route):
    """One history: populate n, drop by pattern, re-create by route.  Returns None or a description."""
    from pyModelChecking.BDD import Ordering
    names = ['w%03d' % i for i in range(n + 1)]
    order = Ordering(names)
    last = names[-1]
    live = [OBDD(crowd_expr(kind, v, last), order) for v in names[:-1]]
    keep = {'none': lambda i: True, 'even': lambda i: i % 2 == 1, 'odd': lambda i: i % 2 == 0,
            'first-half': lambda i: i >= n // 2, 'all-but-last': lambda i: i == n - 1}[drop]
    for i in range(n):
        if not keep(i):
            live[i] = None
    if drop != 'none':
        gc.collect()
    again = []
    for i, v in enumerate(names[:-1]):
        if route == 'text':
            again.append(OBDD(crowd_expr(kind, v, last), order))
        else:
            again.append(crowd_by_ops(kind, v, last, order))
    for i in range(n):
        if live[i] is not None:
            if not (live[i] == again[i]):
                return 'member %d re-created by %s compares unequal to the live original' % (i, route)
            if live[i].root is not again[i].root:
                return 'member %d re-created by %s has another root node than the live original' % (i, route)
    for i in range(n):
        for j in (i + 1, n - 1):
            if j < n and j != i and again[i] == again[j]:
                return 'members %d and %d denote different functions but compare equal' % (i, j)
    seen = {}
    for nd in BDDNode.nodes():
        if isinstance(nd, BDDNonTerminalNode):
            key = (nd.var, id(nd.low), id(nd.high))
            if key in seen:
                return 'two live nodes with the same (variable, low, high): %s' % (nd.var,)
            seen[key] = nd
    return None


def crowd(kind, blk, tier, acc):
    gc.disable()
    try:
        n_cases = 0
        for n in range(1, CROWD_MAX[tier] + 1):
            if n % CROWD_BLOCKS != blk:
                continue
            if deadline_passed():
                acc.capped()
                break
            for drop in CROWD_DROPS:
                for route in ('text', 'ops'):
                    gc.collect()
                    r = call(crowd_case, kind, n, drop, route)
                    n_cases += 1
                    case = {'crowd': {'kind': kind, 'n': n, 'drop': drop, 'route': route}}
                    if r[0] != 'ok':
                        acc.violation('crowd-exception', case, None, r[1:])
                    elif r[1]:
                        acc.violation('crowd-invariant', case, 'canonical store', r[1])
                    if acc.d['nviol'] >= 5:
                        return
        acc.ev(n_cases, n_cases)
        acc.add('crowd_histories', n_cases)
        acc.sample({'crowd': kind, 'block': blk, 'sizes': '1..%d step %d' % (CROWD_MAX[tier], CROWD_BLOCKS),
                    'histories': n_cases})
    finally:
        gc.enable()
        gc.set_threshold(700, 10, 10)


def ops_for(nv, ns, foreign=False):
    V = VARS[:nv]
    menu = MENU2 if nv == 2 else MENU3
    ops = []
    for i in range(ns):
        for e in menu:
            ops.append(('build', i, e))
        ops.append(('drop', i))
        for k in range(ns):
            ops.append(('neg', i, k))
            for side in ('low', 'high'):
                ops.append(('grab', i, side, k))
            for v in V:
                for b in (0, 1):
                    ops.append(('restrict', i, v, b, k))
            for j in range(ns):
                for op in '&|^':
                    ops.append(('apply', i, op, j, k))
        for v in V:
            # a literal node built through the documented BDDNode constructor, the variable name being an
            # equal but freshly built string object
            ops.append(('mknode', i, v))
    ops.append(('gc',))
    ops.append(('failing',))
    if foreign:
        for e in menu:
            ops.append(('fbuild', e))
        ops.append(('fdrop',))
        ops.append(('fneg',))
    return ops


class World(object):
    def __init__(self, cfg):
        self.cfg = cfg
        self.V = VARS[:cfg['nv']]
        self.order = cfg['order']
        self.tt = TT(self.V)
        self.exprs = {}
        for e in (MENU2 if cfg['nv'] == 2 else MENU3):
            self.exprs[e] = tuple(bool(eval(
                e.replace('~', ' not ').replace('&', ' and ').replace('|', ' or '), {},
                dict(zip(self.V, a)))) for a in self.tt.ASG)

    def topvar(self, t):
        for v in self.order:
            if self.tt.cofactor(t, v, 0) != self.tt.cofactor(t, v, 1):
                return v
        return None

    def step(self, slots, model, op):
        """Apply op to the real slots and to the model.  Returns False if not enabled.

        With a 'foreign' ordering in the configuration the last slot holds a diagram over that other
        ordering (same variables, same process-global node store); it is only ever built, negated and
        dropped."""
        k = op[0]
        if k == 'fbuild':
            slots[-1] = OBDD(op[1], list(self.cfg['foreign']))
            model[-1] = self.exprs[op[1]]
            return True
        if k == 'fdrop':
            if slots[-1] is None:
                return False
            slots[-1] = None
            model[-1] = None
            return True
        if k == 'fneg':
            if slots[-1] is None:
                return False
            slots[-1] = ~slots[-1]
            model[-1] = tuple(not x for x in model[-1])
            return True
        if k == 'build':
            slots[op[1]] = OBDD(op[2], list(self.order))
            model[op[1]] = self.exprs[op[2]]
            return True
        if k == 'gc':
            gc.collect()
            return True
        if k == 'mknode':
            name = ''.join(list(op[2]) + [])          # new str object, equal to the variable name
            name = (name + '_')[:-1]
            slots[op[1]] = OBDD(BDDNode(name, BDDNode(0), BDDNode(1)), list(self.order))
            model[op[1]] = self.exprs[op[2]]
            return True
        if k == 'failing':
            # operations that must raise and leave the store as it was
            other = list(self.order)[::-1] + ['zz']
            v0 = self.V[0]
            for bad in (lambda: OBDD('zz & ' + v0, list(self.order)), lambda: OBDD(v0 + ' +', list(self.order)),
                        lambda: OBDD(v0, list(self.order)) & OBDD(v0, other),
                        lambda: OBDD(v0, list(self.order)).restrict(3, True)):
                try:
                    bad()
                except Exception:
                    pass
                else:
                    raise AssertionError('an ill-formed BDD operation did not raise')
            return True
        if slots[op[1]] is None:
            return False
        if k == 'drop':
            slots[op[1]] = None
            model[op[1]] = None
            return True
        if k == 'neg':
            slots[op[2]] = ~slots[op[1]]
            model[op[2]] = tuple(not x for x in model[op[1]])
            return True
        if k == 'grab':
            tv = self.topvar(model[op[1]])
            r = slots[op[1]].root
            if tv is None:
                return False
            slots[op[3]] = OBDD(getattr(r, op[2]), list(self.order))
            model[op[3]] = self.tt.cofactor(model[op[1]], tv, 0 if op[2] == 'low' else 1)
            return True
        if k == 'restrict':
            vname = (op[2] + '_')[:-1]
            slots[op[4]] = slots[op[1]].restrict(vname, op[3])
            model[op[4]] = self.tt.cofactor(model[op[1]], op[2], op[3])
            return True
        if k == 'apply':
            if slots[op[3]] is None:
                return False
            a, b = slots[op[1]], slots[op[3]]
            ta, tb = model[op[1]], model[op[3]]
            if op[2] == '&':
                slots[op[4]] = a & b
                model[op[4]] = tuple(x and y for x, y in zip(ta, tb))
            elif op[2] == '|':
                slots[op[4]] = a | b
                model[op[4]] = tuple(x or y for x, y in zip(ta, tb))
            else:
                slots[op[4]] = a ^ b
                model[op[4]] = tuple(x != y for x, y in zip(ta, tb))
            return True
        raise ValueError(op)

    def nslots(self):
        return self.cfg['ns'] + (1 if self.cfg.get('foreign') else 0)

    def run(self, hist):
        slots = [None] * self.nslots()
        model = [None] * self.nslots()
        for op in hist:
            self.step(slots, model, op)
        return slots, model

    def live_nodes(self):
        return [n for n in BDDNode.nodes() if isinstance(n, BDDNonTerminalNode)]

    def canon(self, slots, model, live):
        lv = sorted((n.var, self.tt.of_node(n)) for n in live)
        return (tuple(model), tuple(lv))

    def invariant(self, slots, model, live, deep):
        pos = dict((v, i) for i, v in enumerate(self.order))
        foreign = self.cfg.get('foreign')
        main_ids = None
        if foreign:
            # which live nodes belong to diagrams of which ordering (a node may belong to both)
            fpos = dict((v, i) for i, v in enumerate(foreign))
            main_ids, f_ids = set(), set()
            for s in slots[:-1]:
                if s is not None:
                    main_ids |= set(id(x) for x in s.root.descendents())
            if slots[-1] is not None:
                f_ids = set(id(x) for x in slots[-1].root.descendents())
        seen = {}
        for n in live:
            key = (n.var, id(n.low), id(n.high))
            if key in seen:
                return 'two live nodes with the same (variable, low, high): %s' % (n.var,)
            seen[key] = n
            if n.low is n.high:
                return 'live node with low is high'
            for c in (n.low, n.high):
                if not isinstance(c, BDDNonTerminalNode):
                    continue
                if foreign:
                    if id(n) in main_ids and not pos[n.var] < pos[c.var]:
                        return 'node %s of a slot diagram not ordered above child %s' % (n.var, c.var)
                    if id(n) in f_ids and not fpos[n.var] < fpos[c.var]:
                        return 'node %s of the other-ordering diagram not ordered above child %s' % (
                            n.var, c.var)
                elif not pos[n.var] < pos[c.var]:
                    return 'live node %s not ordered above child %s' % (n.var, c.var)
            if not (hasattr(n, 'f_low') and hasattr(n, 'f_high')):
                continue        # the unique table is no longer kept in parent sets of this name: the
                #                 store-level checks below (triples, functions, reachability) still apply
            if n not in n.low.f_low or n not in n.high.f_high:
                return 'live node missing from its children\'s parent sets'
            for p in list(n.f_low):
                if p.low is not n:
                    return 'parent set f_low holds a node whose low is another node'
            for p in list(n.f_high):
                if p.high is not n:
                    return 'parent set f_high holds a node whose high is another node'
        # two distinct live nodes must not denote the same function (canonicity of the store)
        by_fn = {}
        for n in live:
            if foreign and id(n) not in main_ids:
                continue        # diagrams over different orderings may denote one function with two nodes
            t = self.tt.of_node(n)
            if t in by_fn and by_fn[t] is not n:
                return 'two live nodes denote the same function'
            by_fn[t] = n
        nmain = self.cfg['ns']
        for i, a in enumerate(slots):
            if a is None:
                continue
            got = self.tt.of_node(a.root)
            if got != model[i]:
                return 'slot %d denotes %s, the model says %s' % (
                    i, [int(x) for x in got], [int(x) for x in model[i]])
            if i >= nmain:
                continue
            for j, b in enumerate(slots[:nmain]):
                if b is None:
                    continue
                same = model[i] == model[j]
                r = call(lambda: a == b)
                if r[0] != 'ok' or r[1] is not same or (a.root is b.root) is not same:
                    return 'slots %d,%d: equal functions=%s but ==:%r same root:%s' % (
                        i, j, same, r[1:], a.root is b.root)
        if deep:
            # nodes alive in the interpreter but unknown to the store would escape find_isomorph
            alive = [o for o in gc.get_objects() if type(o) is BDDNonTerminalNode]
            known = set(id(n) for n in live)
            for o in alive:
                if id(o) not in known:
                    return 'a live BDD node is not reachable through the parent sets of the store'
        return None


def bfs(cfg, acc):
    w = World(cfg)
    ops = ops_for(cfg['nv'], cfg['ns'], bool(cfg.get('foreign')))
    if cfg['gc_free']:
        gc.enable()
        gc.set_threshold(1, 1, 1)
    else:
        gc.disable()
    try:
        gc.collect()
        base = w.live_nodes()
        if base:
            acc.add('nodes_alive_before_search', len(base))
        slots, model = w.run(())
        seen = {w.canon(slots, model, w.live_nodes()): ()}
        frontier = collections.deque([()])
        maxd = 0
        nontrivial = 0
        trans = 0
        capped = False
        while frontier:
            h = frontier.popleft()
            if len(h) >= cfg['depth']:
                capped = True
                continue
            if deadline_passed():
                acc.capped()
                capped = True
                break
            for op in ops:
                r = call(w.run, h)
                if r[0] != 'ok':
                    acc.violation('exception-in-history', {'cfg': cfg, 'history': [list(o) for o in h]},
                                  None, r[1:])
                    return
                slots, model = r[1]
                r = call(w.step, slots, model, op)
                if r[0] != 'ok':
                    acc.violation('exception', {'cfg': cfg, 'history': [list(o) for o in h + (op,)]},
                                  None, r[1:])
                    del slots
                    continue
                if not r[1]:
                    del slots
                    continue
                trans += 1
                live = w.live_nodes()
                c = w.canon(slots, model, live)
                new = c not in seen
                bad = w.invariant(slots, model, live, deep=new)
                if bad:
                    acc.violation('invariant', {'cfg': cfg, 'history': [list(o) for o in h + (op,)]},
                                  'canonical store', bad)
                    del slots, live
                    if acc.d['nviol'] >= 5:
                        return
                    continue
                if new:
                    seen[c] = h + (op,)
                    frontier.append(h + (op,))
                    maxd = max(maxd, len(h) + 1)
                    roots = set()
                    for s in slots:
                        if s is not None:
                            roots |= set(id(x) for x in s.root.descendents())
                    if any(id(n) not in roots for n in live) or \
                            len([m for m in model if m is not None]) > len(set(m for m in model if m is not None)):
                        nontrivial += 1
                del slots, live
        acc.ev(trans, nontrivial)
        acc.add('states', len(seen))
        acc.add('transitions', trans)
        acc.add('max_depth', maxd)
        if capped and not acc.d['capped']:
            acc.add('depth_bounded_configs', 1)
        else:
            acc.add('closed_configs', 1)
        acc.sample({'cfg': cfg, 'states': len(seen), 'transitions': trans, 'max_depth': maxd,
                    'closed': not capped,
                    'deepest_history': [list(o) for o in max(seen.values(), key=len)]})
    finally:
        gc.enable()
        gc.set_threshold(700, 10, 10)


def run_shard(shard, tier, seed, acc):
    if shard[0] == 'crowd':
        return crowd(shard[1], shard[2], tier, acc)
    cfg = configs(tier)[shard[1]]
    bfs(cfg, acc)


def replay(art):
    c = art['case']
    if 'crowd' in c:
        k = c['crowd']
        gc.disable()
        try:
            gc.collect()
            r = call(crowd_case, k['kind'], k['n'], k['drop'], k['route'])
            return {'violates': r[0] != 'ok' or bool(r[1]), 'detail': r[1] if r[0] == 'ok' else r[1:]}
        finally:
            gc.enable()
    cfg = c['cfg']
    w = World(cfg)
    hist = tuple(tuple(o) for o in c['history'])
    if cfg['gc_free']:
        gc.set_threshold(1, 1, 1)
    else:
        gc.disable()
    try:
        slots = [None] * w.nslots()
        model = [None] * w.nslots()
        for i, op in enumerate(hist):
            r = call(w.step, slots, model, op)
            if r[0] != 'ok':
                return {'violates': True, 'at_step': i, 'exception': r[1:]}
        live = w.live_nodes()
        bad = w.invariant(slots, model, live, deep=True)
        return {'violates': bad is not None, 'detail': bad}
    finally:
        gc.enable()
        gc.set_threshold(700, 10, 10)
