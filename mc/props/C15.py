"""C15  Fairness restricts path quantifiers to fair paths.

Clauses: (1) get_fair_states exact; (2) modelcheck(...,F=F) == CGP fair semantics for CTL, LTL,
CTL*; (3) trivial F (None, [], [S], [S,S]) == unconstrained; (4) no internal error, K and F
untouched.  Findings D4 / D7 are recognised through the defect models of mc/fairmodel.py.
"""
import itertools

from .. import spaces, lib, fairmodel
from ..refsem import Sem, fair_states
from ..common import call, as_state_set, kcase, certify_quantified, chunks
from ..runner import deadline_passed

from pyModelChecking.kripke import Kripke

RULE = ('clause 1: every total graph with n<=3 (4 in thorough) x every list F of <=2 subsets of S '
        'x insertion orders; clause 2-4: Kripke structures K(<=2,{p,q}) all labelled, K(3,{p}) '
        'representatives x every list F of <=2 subsets (as sets and frozensets) x one-operator '
        'formulas of each logic over the atoms (size 2 in thorough); non-trivial = F is not '
        'trivially satisfied by every path and the reference answer is neither empty nor S')
ASSUMPTIONS = ['reference: CGP fair semantics = product with one extra Buchi set per element of F; '
               'atoms read as "p and a fair path starts here"; negation classical',
               'Boolean constants are excluded from the exactness clause (both readings defensible)',
               'F is a list of set/frozenset objects',
               'findings D4 and D7 are matched by defect models (mc/fairmodel.py); anything else '
               'is a violation']
BUDGET = {'quick': 900, 'thorough': 5400}

LANG = {'CTL': lib.CTL, 'LTL': lib.LTL, 'CTLS': lib.CTLS}

# ---- recorder for the fair set the implementation actually used (harness-side wrapper)
_REC = []
_orig_gfs = Kripke.get_fair_states


def _recording_gfs(self, F):
    r = _orig_gfs(self, F)
    try:
        _REC.append(set(r))
    except Exception:
        _REC.append(None)
    return r


def install_recorder():
    if Kripke.get_fair_states is not _recording_gfs:
        Kripke.get_fair_states = _recording_gfs


def f_lists(n, maxlen=2):
    subs = [frozenset(c) for r in range(n + 1) for c in itertools.combinations(range(n), r)]
    out = [[]]
    for P in subs:
        out.append([P])
    if maxlen >= 2:
        for P in subs:
            for Q in subs:
                out.append([P, Q])
    return out


def literal_leaves(leaves):
    return tuple(leaves) + tuple(('not', l) for l in leaves)


def formulas(logic, leaves, size2=False, literals=False):
    if literals:
        # one operator over the literal leaves p, not p, ...: operands that can hold in unfair states
        lv = literal_leaves(leaves)
        if logic == 'CTL':
            return list(spaces.ctl_by_size(1, lv))
        gs = list(spaces.path_by_size(1, lv))
        if logic == 'LTL':
            return [('A', g) for g in gs]
        return [(q, g) for g in gs for q in 'AE']
    if logic == 'CTL':
        fs = list(spaces.ctl_by_size(1, leaves))
        if size2:
            fs += list(spaces.ctl_by_size(2, leaves))
        return fs
    if logic == 'LTL':
        gs = list(spaces.path_by_size(1, leaves))
        if size2:
            gs += list(spaces.path_by_size(2, leaves))
        return [('A', g) for g in gs]
    gs = list(spaces.path_by_size(1, leaves))
    out = [(q, g) for g in gs for q in 'AE']
    p = leaves[0]
    q = leaves[-1]
    out += [('E', ('X', ('A', ('G', p)))), ('A', ('F', ('E', ('G', q)))), ('not', ('A', ('G', p))),
            ('and', ('E', ('F', p)), ('A', ('X', q))), ('A', ('and', ('F', p), ('G', q))),
            ('E', ('and', ('G', ('F', p)), ('X', q))), ('A', ('or', ('X', p), ('A', ('F', q)))),
            ('E', ('U', ('A', ('X', p)), ('E', ('G', q)))), ('A', p), ('E', ('not', ('X', p))),
            ('imp', ('A', ('G', ('F', p))), ('E', ('F', ('G', q))))]
    if size2:
        out += [(qn, g) for g in spaces.path_by_size(2, leaves) for qn in 'AE']
    return out


def scope(tier, seed):
    return {'clause1': 'all total graphs n<=3 x all F lists of <=2 subsets x 2 insertion orders'
            + ('; all 50625 total graphs n=4 x F lists of <=1 subset (+[S,S])' if tier == 'quick'
               else '; all 50625 total graphs n=4 x all 273 F lists of <=2 subsets'),
            'clause2-4': 'all 148 labelled K(<=2,{p,q}) x all 21 F lists x one-operator formulas of '
            'CTL (42), LTL (28), CTL* (56 + 11 nested/boolean shapes)' + (' [quick: LTL/CTL* on the 82 '
            'iso-representatives with F lists of <=1 set + quarter %d of the two-set lists]' % (seed % 4)
            if tier == 'quick' else '') + '; representatives of K(3,{p}) x '
            + ('F lists of <=1 subset and [P,S] (LTL/CTL* on the quarter of the representatives with '
               'index %% 4 == %d)' % (seed % 4) if tier == 'quick' else
               'F lists of <=1 subset, [P,S] and a seed-indexed quarter of the two-set lists')
            + ' x formulas over {p}' + ('' if tier == 'quick' else '; size-2 formulas on K(<=2)')
            + '; CTL formulas with quantified operands (Q[a U/R b], Q[b U a], QX/QF/QG b; b one-operator '
            'quantified) on the K(3,{p}) representatives' + (' (a seed-indexed third of the formulas on half of the structures)' if tier == 'quick' else '')
            + '; structures that already carry user atoms named fair / fair0 (CTL, K(<=3,{p}))'
            + '; label sets shared between states or frozen, installed via replace_labelling_function; F as key '
            'views; every list of 3 (n<=3) and 4 (n<=2) constraints for get_fair_states'
            + '; additionally one-operator formulas over the literal leaves p, not p, q, not q ('
            + ('CTL only' if tier == 'quick' else 'all three logics') + ')'}


def _k3():
    return spaces.kripke_reps(3, ('p',))


def plan(tier, seed):
    sh = [['fs_small']]
    for lo, hi in chunks(50625, 1024):
        sh.append(['fs4', lo, hi])
    for lo, hi in chunks(148, 2):
        sh.append(['mc2', lo, hi, 0])
    for lo, hi in chunks(len(_k3()), 8):
        sh.append(['mc3', lo, hi])
    for lo, hi in chunks(len(_k3()), 16):
        sh.append(['mc3n', lo, hi])
    for lo, hi in chunks(len(_k3()), 16):
        sh.append(['userfair', lo, hi])
    for lo, hi in chunks(len(_k3()), 16):
        sh.append(['shared', lo, hi])
    if tier == 'thorough':
        for lo, hi in chunks(82, 1):
            sh.append(['mc2', lo, hi, 1])
    return sh


# ------------------------------------------------------------------ clause 1

def check_fair_states(k, F, order, acc, as_frozen):
    names = list(order)
    Kl = Kripke(S=names, R=[(i, j) for i in range(k.n) for j in k.succ[i]])
    if as_frozen == 'view':
        Farg = [dict((x, 1) for x in P).keys() for P in F]
    else:
        Farg = [(frozenset(P) if as_frozen else set(P)) for P in F]
    Fcopy = [set(P) for P in Farg]
    snap = lib.snapshot_kripke(Kl)
    res = as_state_set(call(Kl.get_fair_states, Farg))
    ref, adm = fairmodel.d4_admissible(k, F)
    ref2 = fair_states(k, F)
    if ref2 != ref:
        acc.harness_error('fair state references disagree on %r %r' % (k, F))
    nontriv = 1 if (F and 0 < len(ref) < k.n) else 0
    acc.ev(1, nontriv)
    case = {'k': k.to_json(), 'F': [sorted(P) for P in F], 'order': names, 'frozen': as_frozen}
    if [set(P) for P in Farg] != Fcopy or lib.snapshot_kripke(Kl) != snap:
        acc.violation('fair-states-modifies-arguments', case)
    if res[0] != 'set':
        acc.violation('fair-states-exception', case, sorted(ref), res)
        return
    got = frozenset(res[1])
    if got == ref:
        return
    if got in adm:
        acc.finding('D4', case, sorted(ref), sorted(got))
    else:
        acc.violation('fair-states-wrong', case, sorted(ref), sorted(got))


# ------------------------------------------------------------------ clauses 2-4

def check_mc(k, Kl, F, logic, f, acc, as_frozen, audit=False):
    install_recorder()
    if as_frozen == 'view':
        Farg = [dict((x, 1) for x in P).keys() for P in F]
    else:
        Farg = [(frozenset(P) if as_frozen else set(P)) for P in F]
    Fcopy = [set(P) for P in Farg]
    snap = lib.snapshot_kripke(Kl)
    del _REC[:]
    L = LANG[logic]
    fobj = lib.build(f, L)
    res = as_state_set(call(L.modelcheck, Kl, fobj, F=Farg))
    if lib.read(fobj) != f:
        acc.violation('formula-object-modified', kcase(k, f, F=[sorted(P) for P in F], logic=logic,
                                                       frozen=as_frozen), spaces.fstr(f), str(fobj))
    rec = list(_REC)
    sem = Sem(k, F=F)
    ref = sem.sat(f)
    trivialF = all(len(P) == k.n for P in F)
    nontriv = 1 if ((not trivialF) and 0 < len(ref) < k.n) else 0
    acc.ev(1, nontriv)
    case = kcase(k, f, F=[sorted(P) for P in F], logic=logic, frozen=as_frozen)
    if trivialF:
        plain = Sem(k).sat(f)
        if plain != ref:
            acc.harness_error('reference audit: trivial F changes the reference answer %r' % (case,))
    if [set(P) for P in Farg] != Fcopy or len(Farg) != len(F):
        acc.violation('F-modified', case)
    if lib.snapshot_kripke(Kl) != snap:
        acc.violation('K-modified', case)
        return 'stop'
    if res[0] != 'set':
        acc.violation('exception', case, sorted(ref), res)
        return
    got = frozenset(res[1])
    if audit:
        certify_quantified(sem, f, None, acc)
    acc.add('states', sem.states)
    acc.add('transitions', sem.transitions)
    if got == ref:
        return
    # not the CGP answer: is it the recorded reduction defect?
    fairset = None
    if rec and rec[-1] is not None and len(rec) == 1:
        fairset = frozenset(rec[-1])
    else:
        r2 = call(lambda: set(Kl.clone().get_fair_states([set(P) for P in F])))
        if r2[0] == 'ok':
            fairset = frozenset(r2[1])
    model = None
    if fairset is not None and fairset <= frozenset(range(k.n)):
        # the fair set itself must be admissible (D4) for the attribution to stand
        refF, adm = fairmodel.d4_admissible(k, F)
        if fairset == refF or fairset in adm:
            model = {'CTL': fairmodel.model_ctl, 'LTL': fairmodel.model_ltl,
                     'CTLS': fairmodel.model_ctls}[logic](k, f, fairset)
    if model is not None and got == model:
        acc.finding('D7', case, sorted(ref), sorted(got))
    else:
        acc.violation('wrong-fair-answer', case, sorted(ref),
                      {'got': sorted(got), 'reduction_model': None if model is None else sorted(model)})


def run_shard(shard, tier, seed, acc):
    kind = shard[0]
    if kind == 'fs_small':
        for n in (1, 2, 3):
            for succ in spaces.graphs_total(n):
                k = spaces.K(n, succ, [()] * n)
                for i, F in enumerate(f_lists(n)):
                    for order in (list(range(n)), list(range(n))[::-1]):
                        check_fair_states(k, F, order, acc, as_frozen=(i % 2 == 1))
                    if i % 3 == 0:
                        check_fair_states(k, F, list(range(n)), acc, as_frozen='view')
                # lists of 3 and 4 constraints (more constraints than states, repeated sets)
                subs = [frozenset(c) for r_ in range(1, n + 1) for c in itertools.combinations(range(n), r_)]
                for combo in itertools.product(subs, repeat=3):
                    check_fair_states(k, list(combo), list(range(n)), acc, as_frozen=False)
                if n <= 2:
                    for combo in itertools.product(subs, repeat=4):
                        check_fair_states(k, list(combo), list(range(n)), acc, as_frozen=True)
        acc.sample({'graph': [[0, 1], [0, 1], [0]], 'F': [[1], [0, 2]], 'op': 'get_fair_states'})
        return
    if kind == 'fs4':
        Fl = f_lists(4, 1 if tier == 'quick' else 2)
        if tier == 'quick':
            Fl = Fl + [[frozenset(range(4)), frozenset(range(4))], [frozenset([0]), frozenset([3])],
                       [frozenset([1, 2]), frozenset([0])]]
        for succ in itertools.islice(spaces.graphs_total(4), shard[1], shard[2]):
            if deadline_passed():
                acc.capped()
                return
            k = spaces.K(4, succ, [()] * 4)
            for i, F in enumerate(Fl):
                check_fair_states(k, F, [0, 1, 2, 3], acc, as_frozen=(i % 2 == 1))
        return
    if kind == 'mc2':
        size2 = shard[3] == 1
        if size2:
            ks = (spaces.kripke_reps(1) + spaces.kripke_reps(2))[shard[1]:shard[2]]
        else:
            ks = (list(spaces.kripkes(1)) + list(spaces.kripkes(2)))[shard[1]:shard[2]]
        reps2 = set(x.key() for x in spaces.kripke_reps(1) + spaces.kripke_reps(2))
        for k in ks:
            Kl = lib.to_kripke(k)
            Fl_all = f_lists(k.n)
            for logic in ('CTL', 'LTL', 'CTLS'):
                Fl = Fl_all
                if tier == 'quick' and logic != 'CTL':
                    # the tableau-based checkers are ~10x slower: quick covers the iso-class
                    # representatives, all F lists of <=1 set and a seed-indexed quarter of the
                    # two-set lists; thorough covers everything
                    if k.key() not in reps2:
                        continue
                    Fl = [F for i, F in enumerate(Fl_all) if len(F) <= 1 or i % 4 == seed % 4]
                forms = formulas(logic, spaces.LEAVES2, size2)
                if not size2 and (logic == 'CTL' or tier != 'quick'):
                    seenf = set(forms)
                    forms = forms + [f for f in formulas(logic, spaces.LEAVES2, literals=True)
                                     if f not in seenf]
                if size2:
                    forms = [f for f in forms if spaces.size_of(f) >= 3 or logic == 'CTL']
                    if logic != 'CTL':
                        forms = forms[(seed % 4)::4]
                for j, f in enumerate(forms):
                    if deadline_passed():
                        acc.capped()
                        return
                    for i, F in enumerate(Fl):
                        r = check_mc(k, Kl, F, logic, f, acc, as_frozen=((i + j) % 2 == 1),
                                     audit=(not size2))
                        if r == 'stop':
                            Kl = lib.to_kripke(k)
            acc.sample({'k': k.to_json(), 'F': 'all lists of <=2 subsets', 'logics': ['CTL', 'LTL', 'CTLS']})
        return
    if kind == 'shared':
        # label sets installed through replace_labelling_function are the caller's own objects and may be
        # shared between states (also frozensets); F may hold set-like key views; 3-4 constraints
        Pp = spaces.P
        forms = formulas('CTL', (Pp,))[::2] + [('E', ('X', ('not', Pp))), ('A', ('G', ('E', ('F', Pp))))]
        lforms = formulas('LTL', (Pp,))[::3]
        for k in _k3()[shard[1]:shard[2]][(seed % 3)::3] + (list(spaces.kripke_reps(2, ('p',))) if shard[1] == 0 else []):
            yes = set(['p'])
            no = set()
            for variant in ('shared-sets', 'frozensets'):
                def fresh_K():
                    K_ = Kripke(S=list(range(k.n)), R=[(i, j) for i in range(k.n) for j in k.succ[i]])
                    if variant == 'shared-sets':
                        y, n_ = set(['p']), set()
                        K_.replace_labelling_function(dict((i, y if 'p' in k.lab[i] else n_) for i in range(k.n)))
                    else:
                        K_.replace_labelling_function(dict((i, frozenset(k.lab[i])) for i in range(k.n)))
                    return K_
                Kl = fresh_K()
                Fl = f_lists(k.n, 1) + [[frozenset([0]), frozenset([k.n - 1]), frozenset(range(k.n))]]
                for logic, fs_ in (('CTL', forms), ('LTL', lforms), ('CTLS', forms[::4])):
                    for j, f in enumerate(fs_):
                        if deadline_passed():
                            acc.capped()
                            return
                        for i, F in enumerate(Fl):
                            r = check_mc(k, Kl, F, logic, f, acc, as_frozen=('view' if (i + j) % 3 == 0 else bool((i + j) % 2)))
                            if r == 'stop':
                                Kl = fresh_K()
        acc.sample({'labels': 'one set object shared by several states / frozensets, installed with '
                              'replace_labelling_function', 'F': 'sets, frozensets, dict key views, 3 constraints'})
        return
    if kind == 'userfair':
        # the structure already carries atoms called 'fair' / 'fair0' on some states (the user's own
        # labels): the answer for formulas over p must not change
        Pp = spaces.P
        forms = formulas('CTL', (Pp,)) + [f for f in formulas('CTL', (Pp,), literals=True)][::3]
        ks = list(spaces.kripke_reps(1, ('p',))) + list(spaces.kripke_reps(2, ('p',))) if shard[1] == 0 else []
        ks = ks + _k3()[shard[1]:shard[2]][(seed % 2)::2]
        for k in ks:
            for placement in (1, (1 << k.n) - 2, (1 << k.n) - 1, 5 % (1 << k.n)):
                for extra in (('fair',), ('fair', 'fair0')):
                    lab = dict((i, set(k.lab[i]) | (set(extra) if (placement >> i) & 1 else set()))
                               for i in range(k.n))
                    Kl = Kripke(S=list(range(k.n)), R=[(i, j) for i in range(k.n) for j in k.succ[i]], L=lab)
                    Fl = f_lists(k.n, 1)
                    for j, f in enumerate(forms):
                        if deadline_passed():
                            acc.capped()
                            return
                        for i, F in enumerate(Fl):
                            r = check_mc(k, Kl, F, 'CTL', f, acc, as_frozen=((i + j) % 2 == 1))
                            if r == 'stop':
                                Kl = Kripke(S=list(range(k.n)), R=[(a, b) for a in range(k.n) for b in k.succ[a]], L=lab)
        acc.sample({'labels': 'p plus user atoms fair / fair0 on some states', 'formula': 'E(X(p))', 'F': '[{1}]'})
        return
    if kind == 'mc3n':
        # CTL formulas whose operands are themselves quantified (the fair rewriting must reach them):
        # Q[a T b] with a in {p, not p, true}, b a one-operator quantified formula, and Q T b
        Pp = spaces.P
        inner = [f for f in spaces.ctl_by_size(1, (Pp,)) if f[0] in ('A', 'E')]
        outer = []
        for b in inner:
            for qn in 'AE':
                for a in (Pp, ('not', Pp), spaces.T):
                    outer.append((qn, ('U', a, b)))
                    outer.append((qn, ('R', a, b)))
                    outer.append((qn, ('U', b, a)))
                for tp in 'XFG':
                    outer.append((qn, (tp, b)))
        if tier == 'quick':
            outer = outer[(seed % 3)::3]
        Fl = f_lists(3, 1)
        for ki, k in enumerate(_k3()[shard[1]:shard[2]]):
            if tier == 'quick' and (shard[1] + ki) % 2 != (seed // 3) % 2:
                continue
            Kl = lib.to_kripke(k)
            for j, f in enumerate(outer):
                if deadline_passed():
                    acc.capped()
                    return
                for i, F in enumerate(Fl):
                    r = check_mc(k, Kl, F, 'CTL', f, acc, as_frozen=((i + j) % 2 == 1))
                    if r == 'stop':
                        Kl = lib.to_kripke(k)
        acc.sample({'k': _k3()[shard[1]].to_json(), 'formula': 'A(p U A(F(p)))', 'F': 'all lists of <=1 set'})
        return
    if kind == 'mc3':
        for ki, k in enumerate(_k3()[shard[1]:shard[2]]):
            Kl = lib.to_kripke(k)
            slow_ok = (tier != 'quick') or ((shard[1] + ki) % 4 == seed % 4)
            Fl = f_lists(3, 1) + [[P[0], frozenset(range(3))] for P in f_lists(3, 1)[1:]]
            if tier != 'quick':
                two = [F for F in f_lists(3) if len(F) == 2]
                Fl = Fl + [F for i, F in enumerate(two) if i % 4 == seed % 4]
            for logic in ('CTL', 'LTL', 'CTLS'):
                if logic != 'CTL' and not slow_ok:
                    continue
                forms3 = formulas(logic, (spaces.P,))
                if logic == 'CTL' or tier != 'quick':
                    forms3 = forms3 + [f for f in formulas(logic, (spaces.P,), literals=True)
                                       if f not in set(forms3)]
                for j, f in enumerate(forms3):
                    if deadline_passed():
                        acc.capped()
                        return
                    for i, F in enumerate(Fl):
                        r = check_mc(k, Kl, F, logic, f, acc, as_frozen=((i + j) % 2 == 1))
                        if r == 'stop':
                            Kl = lib.to_kripke(k)
        return
    raise ValueError(shard)


def replay(art):
    from ..runner import Acc
    c = art['case']
    k = spaces.K.from_json(c['k'])
    F = [frozenset(P) for P in c['F']]
    acc = Acc()
    if 'order' in c:
        check_fair_states(k, F, c['order'], acc, c['frozen'])
    else:
        f = spaces.from_jsonable(c['f'])
        check_mc(k, lib.to_kripke(k), F, c['logic'], f, acc, c['frozen'])
    fid = None
    if acc.d['findings']:
        fid = sorted(acc.d['findings'])[0]
    return {'violates': acc.d['nviol'] > 0 or bool(acc.d['findings']), 'finding':
            None if acc.d['nviol'] else fid,
            'detail': acc.d['violations'][:1] or [v['example'] for v in acc.d['findings'].values()][:1]}
