"""C17  OBDD operations compute the right function, reduced and ordered.

Alphabet: every Boolean function of 3 variables (256) under all 6 orderings, all ordered pairs of
          them x {&,|,^}, negation, restrict(v,b) for every v of the ordering and b in
          {0,1,False,True}; parse of every expression of depth<=2; thorough: all 65536 functions
          of 4 variables under orderings x a partner menu.
Oracle  : truth table of the result diagram (walk of low/high) equals the pointwise operation;
          every reachable node ordered and reduced; node count equals the ROBDD size computed
          from the truth table; variables() == reachable variables == semantic support; ordering
          mismatch / unknown variable => RuntimeError.
"""
import itertools

from ..refbdd import TT, exprs, render, wellformed, reachable_vars, expr_vars
from ..common import call, chunks
from ..runner import deadline_passed

from pyModelChecking.BDD import OBDD

RULE = ('all Boolean functions of n variables (as truth tables, built from their DNF) x all '
        'orderings x all ordered pairs x {&,|,^}; ~f; restrict(v,b); expressions of depth<=2 '
        'each once; non-trivial = the result is not a constant function')
ASSUMPTIONS = ['reference: truth tables over all 2^n assignments; ROBDD size by counting distinct '
               'subfunctions', 'restrict on a variable outside the ordering is not required to raise']
BUDGET = {'quick': 600, 'thorough': 3600}
V3 = ['a', 'b', 'c']
V4 = ['a', 'b', 'c', 'd']

OPS = [('&', lambda p, q: p and q, lambda x, y: x & y),
       ('|', lambda p, q: p or q, lambda x, y: x | y),
       ('^', lambda p, q: p != q, lambda x, y: x ^ y)]


def scope(tier, seed):
    d = {'3 variables': 'all 256 functions x 6 orderings: 65536 ordered pairs x 3 operators each, '
                        'negation, 3x4 restrictions', 'expressions': 'all of depth<=2 over a,b,c,0,1',
         'errors': 'ordering mismatch for every pair of distinct orderings; unknown variable',
         'cross-ordering histories': 'for every ordered pair (o1,o2) of orderings: a 29-function menu, '
                                     'all pairs x 3 operators + negation, under o1, o2, o1 in one process'}
    if tier == 'thorough':
        d['4 variables'] = ('all 65536 functions x orderings {abcd, one seed-chosen} x 10-function '
                            'partner menu x 3 operators, negation, restrictions, ROBDD size')
    return d


def plan(tier, seed):
    sh = []
    for oi in range(6):
        for lo, hi in chunks(256, 32):
            sh.append(['f3', oi, lo, hi])
    sh.append(['expr'])
    sh.append(['errors'])
    for i in range(6):
        sh.append(['xord', i])
    sh.append(['dynnames'])
    sh.append(['aliasing'])
    if tier == 'thorough':
        perms = list(itertools.permutations(range(4)))
        ois = sorted(set([0, (seed * 7 + 5) % 23 + 1]))
        for oi in ois:
            for lo, hi in chunks(65536, 1024):
                sh.append(['f4', oi, lo, hi])
    return sh


def check_obdd(tt, o, order, want, acc, case, kind, fn=None):
    """o: result OBDD; want: expected truth table."""
    ok = True
    got = call(tt.of_node, o.root)
    if got[0] != 'ok' or got[1] != want:
        acc.violation(kind + '-function', case, [int(x) for x in want],
                      got[1:] if got[0] != 'ok' else [int(x) for x in got[1]])
        return False
    wf = wellformed(o.root, order)
    if not wf[0]:
        acc.violation(kind + '-structure', case, 'ordered and reduced', wf[1])
        return False
    size = tt.robdd_size(want, order)
    if wf[1] != size:
        acc.violation(kind + '-size', case, size, wf[1])
        ok = False
    vs = call(o.variables)
    sup = tt.support(want)
    if vs[0] != 'ok' or vs[1] != sup or reachable_vars(o.root) != sup:
        acc.violation(kind + '-variables', case, sorted(sup), vs[1:] if vs[0] != 'ok' else sorted(vs[1]))
        ok = False
    if fn is not None and o.root is not fn[want].root:
        acc.violation(kind + '-not-canonical', case, 'shared root', 'distinct root')
        ok = False
    return ok


def run_functions(V, order, lo, hi, partners, acc, all_pairs):
    tt = TT(V)
    order = list(order)
    funcs = list(tt.all_functions())
    fn = {}
    for t in funcs:
        r = call(OBDD, tt.dnf(t), order)
        acc.ev(1, 1 if (any(t) and not all(t)) else 0)
        case = {'vars': V, 'order': order, 'f': [int(x) for x in t]}
        if r[0] != 'ok':
            acc.violation('parse-exception', case, None, r[1:])
            return
        fn[t] = r[1]
        if t in funcs[lo:hi] or len(funcs) <= 256:
            check_obdd(tt, r[1], order, t, acc, case, 'parse')
    plist = funcs if all_pairs else partners(tt)
    for ta in funcs[lo:hi]:
        if deadline_passed():
            acc.capped()
            return
        a = fn[ta]
        case = {'vars': V, 'order': order, 'f': [int(x) for x in ta]}
        r = call(lambda: ~a)
        acc.ev(1, 1)
        if r[0] != 'ok':
            acc.violation('neg-exception', case, None, r[1:])
        else:
            check_obdd(tt, r[1], order, tuple(not x for x in ta), acc, case, 'neg', fn)
        for v in V:
            for b in (0, 1, False, True):
                c2 = dict(case, v=v, b=repr(b))
                r = call(a.restrict, v, b)
                want = tt.cofactor(ta, v, b)
                acc.ev(1, 1 if (any(want) and not all(want)) else 0)
                if r[0] != 'ok':
                    acc.violation('restrict-exception', c2, None, r[1:])
                else:
                    check_obdd(tt, r[1], order, want, acc, c2, 'restrict', fn)
        for tb in plist:
            b = fn[tb]
            for sym, pf, of in OPS:
                r = call(of, a, b)
                want = tuple(pf(p, q) for p, q in zip(ta, tb))
                acc.ev(1, 1 if (any(want) and not all(want)) else 0)
                c2 = dict(case, g=[int(x) for x in tb], op=sym)
                if r[0] != 'ok':
                    acc.violation('apply-exception', c2, None, r[1:])
                else:
                    check_obdd(tt, r[1], order, want, acc, c2, 'apply', fn)
        if tuple(tt.of_node(a.root)) != ta:
            acc.violation('operand-changed', case, None, None)


def partners4(tt):
    es = ['a', 'b', 'c', 'd', '~a', '~d', 'a & b', 'a | d', 'c & ~d', '(a & ~b) | (~a & b)',
          '(c & ~d) | (~c & d)', '(a & b) | (c & d)', '(a | b) & (c | d)',
          '(a & b) | (a & c) | (b & c)', '0', '1', '(a & d) | (~a & ~d)', 'b | c | d',
          '~(a & b & c & d)', '(b & ~c) | (~b & c & d)'][::2]
    out = []
    for e in es:
        env_t = tuple(bool(eval(e.replace('~', ' not ').replace('&', ' and ').replace('|', ' or '),
                                {}, dict(zip(tt.V, a)))) for a in tt.ASG)
        out.append(env_t)
    return out


def run_shard(shard, tier, seed, acc):
    kind = shard[0]
    if kind == 'f3':
        order = list(itertools.permutations(V3))[shard[1]]
        run_functions(V3, order, shard[2], shard[3], None, acc, True)
        acc.sample({'order': list(order), 'f': 'truth tables %d..%d of 256' % (shard[2], shard[3]),
                    'ops': ['&', '|', '^', '~', 'restrict'], 'partners': 'all 256'})
        return
    if kind == 'f4':
        order = list(itertools.permutations(V4))[shard[1]]
        run_functions(V4, order, shard[2], shard[3], partners4, acc, False)
        return
    if kind == 'expr':
        tt = TT(V3)
        for order in itertools.permutations(V3):
            order = list(order)
            for e in exprs(2, V3):
                s = render(e)
                r = call(OBDD, s, order)
                want = tt.of_expr(e)
                acc.ev(1, 1 if (any(want) and not all(want)) else 0)
                case = {'expr': s, 'order': order}
                if r[0] != 'ok':
                    acc.violation('expr-exception', case, None, r[1:])
                else:
                    check_obdd(tt, r[1], order, want, acc, case, 'expr')
        acc.sample({'expr': render(exprs(2, V3)[4000]), 'orders': 'all 6'})
        return
    if kind == 'xord':
        # two-step histories: the same operations under ordering o1, then under o2 (and back):
        # results must be right under both, whatever the library remembered in between
        tt = TT(V3)
        perms = [list(p) for p in itertools.permutations(V3)]
        o1 = perms[shard[1]]
        menu = [t for i, t in enumerate(tt.all_functions()) if i % 11 == 0 or i in (15, 51, 85, 170, 204, 240)]
        for o2 in perms:
            if o2 == o1:
                continue
            for order in (o1, o2, o1):
                fn = dict((t, OBDD(tt.dnf(t), list(order))) for t in tt.all_functions())
                for ta in menu:
                    for tb in menu:
                        for sym, pf, of in OPS:
                            r = call(of, fn[ta], fn[tb])
                            want = tuple(pf(p, q) for p, q in zip(ta, tb))
                            acc.ev(1, 1 if (any(want) and not all(want)) else 0)
                            c2 = {'vars': V3, 'order': order, 'f': [int(x) for x in ta],
                                  'g': [int(x) for x in tb], 'op': sym,
                                  'history': 'same operations under %r then %r then %r' % (o1, o2, o1)}
                            if r[0] != 'ok':
                                acc.violation('apply-exception', c2, None, r[1:])
                            else:
                                check_obdd(tt, r[1], order, want, acc, c2, 'apply', fn)
                    r = call(lambda: ~fn[ta])
                    if r[0] != 'ok':
                        acc.violation('neg-exception', {'order': order, 'f': [int(x) for x in ta]}, None, r[1:])
                    else:
                        check_obdd(tt, r[1], order, tuple(not x for x in ta), acc,
                                   {'vars': V3, 'order': order, 'f': [int(x) for x in ta]}, 'neg', fn)
        acc.sample({'history': 'all menu pairs x {&,|,^} under %r, then under each other ordering, then '
                               'again under %r' % (o1, o1)})
        return
    if kind == 'aliasing':
        # values handed out by / handed to the library must not stay connected to its internals
        tt = TT(V3)
        funcs = list(tt.all_functions())[::7]
        for order0 in itertools.permutations(V3):
            for ta in funcs:
                for tb in funcs[::3]:
                    lst = list(order0)
                    f = OBDD(tt.dnf(ta), lst)
                    before = (tt.of_node(f.root), str(f))
                    # the caller goes on using its list
                    lst.reverse()
                    lst.append('zz')
                    g = OBDD(tt.dnf(tb), list(order0))
                    c2 = {'vars': V3, 'order': list(order0), 'f': [int(x) for x in ta], 'g': [int(x) for x in tb],
                          'aliasing': 'ordering list mutated by the caller after construction'}
                    acc.ev(1, 1)
                    if (tt.of_node(f.root), str(f)) != before:
                        acc.violation('caller-list-mutation-changes-obdd', c2, before[1], str(f))
                        continue
                    for sym, pf, of in OPS:
                        r = call(of, f, g)
                        want = tuple(pf(p, q) for p, q in zip(ta, tb))
                        if r[0] != 'ok':
                            acc.violation('apply-exception', dict(c2, op=sym), None, r[1:])
                        else:
                            check_obdd(tt, r[1], list(order0), want, acc, dict(c2, op=sym), 'apply')
                    # variables() hands out a set: mutating it must not change later answers
                    vs = f.variables()
                    exp = set(vs)
                    vs.add('zz')
                    vs.update(g.variables())
                    vs2 = f.variables()
                    if vs2 != exp or vs2 != tt.support(ta):
                        acc.violation('variables-result-aliased', c2, sorted(exp), sorted(vs2))
        return
    if kind == 'dynnames':
        # variable names that are equal to, but not the same string objects as, the node labels
        base = ['v%d' % i for i in (1, 2, 3)]
        tt = TT(base)
        for order in itertools.permutations(base):
            order = list(order)
            fn = dict((t, OBDD(tt.dnf(t), list(order))) for t in tt.all_functions())
            for ta in list(tt.all_functions())[::5]:
                a = fn[ta]
                for i, v in enumerate(base):
                    for b in (0, 1):
                        fresh = ''.join(['v', str(i + 1)])          # a new str object each time
                        assert fresh == v
                        r = call(a.restrict, fresh, b)
                        want = tt.cofactor(ta, v, b)
                        acc.ev(1, 1 if (any(want) and not all(want)) else 0)
                        c2 = {'vars': base, 'order': order, 'f': [int(x) for x in ta], 'v': v, 'b': repr(b),
                              'dynamic_name': True}
                        if r[0] != 'ok':
                            acc.violation('restrict-exception', c2, None, r[1:])
                        else:
                            check_obdd(tt, r[1], order, want, acc, c2, 'restrict', fn)
                # the same function parsed with a freshly built ordering list must be the same diagram
                o2 = OBDD(tt.dnf(ta), [''.join(list(x)) for x in order])
                if o2.root is not a.root or not (o2 == a):
                    acc.violation('parse-not-canonical', {'vars': base, 'order': order, 'f': [int(x) for x in ta],
                                                          'dynamic_name': True}, 'shared root', 'distinct root')
        return
    if kind == 'errors':
        orders = [list(p) for k in (1, 2, 3) for p in itertools.permutations(V3, k)]
        for o1 in orders:
            for o2 in orders:
                if o1 == o2:
                    continue
                v1, v2 = o1[0], o2[0]
                for e1 in (v1, '0', '1', '%s & ~%s' % (v1, v1), '%s | ~%s' % (v1, v1), '~%s' % v1):
                    for e2 in (v2, '0', '1', '%s & ~%s' % (v2, v2)):
                        x = OBDD(e1, o1)
                        y = OBDD(e2, o2)
                        for sym, pf, of in OPS:
                            r = call(of, x, y)
                            acc.ev(1, 1)
                            if not (r[0] == 'exc' and r[1] == 'RuntimeError'):
                                acc.violation('ordering-mismatch-accepted',
                                              {'o1': o1, 'o2': o2, 'op': sym, 'e1': e1, 'e2': e2},
                                              'RuntimeError', r[:2])
            for e in ('z', 'a & z', '~z | a', 'z & 0', '(a | b) & (c | z)'):
                r = call(OBDD, e, o1)
                acc.ev(1, 1)
                if not (r[0] == 'exc' and r[1] == 'RuntimeError'):
                    # a & z etc. with a missing from o1 also must raise; all contain z
                    acc.violation('unknown-variable-accepted', {'expr': e, 'order': o1},
                                  'RuntimeError', r[:2])
        return
    raise ValueError(shard)


def replay(art):
    from ..runner import Acc
    c = art['case']
    acc = Acc()
    kind = art['kind']
    if 'expr' in c and 'order' in c and not kind.startswith('unknown'):
        tt = TT(V3)
        e = [x for x in exprs(2, V3) if render(x) == c['expr']][0]
        r = call(OBDD, c['expr'], c['order'])
        if r[0] != 'ok':
            return {'violates': True, 'got': r[1:]}
        check_obdd(tt, r[1], c['order'], tt.of_expr(e), acc, c, 'expr')
        return {'violates': acc.d['nviol'] > 0, 'detail': acc.d['violations'][:2]}
    if kind.startswith('unknown'):
        r = call(OBDD, c['expr'], c['order'])
        return {'violates': not (r[0] == 'exc' and r[1] == 'RuntimeError'), 'got': r[:2]}
    if kind.startswith('ordering'):
        x = OBDD(c.get('e1', c['o1'][0]), c['o1'])
        y = OBDD(c.get('e2', c['o2'][0]), c['o2'])
        of = [o for o in OPS if o[0] == c['op']][0][2]
        r = call(of, x, y)
        return {'violates': not (r[0] == 'exc' and r[1] == 'RuntimeError'), 'got': r[:2]}
    if c.get('aliasing'):
        run_shard(['aliasing'], 'quick', 0, acc)
        return {'violates': acc.d['nviol'] > 0, 'detail': acc.d['violations'][:1]}
    if c.get('dynamic_name'):
        run_shard(['dynnames'], 'quick', 0, acc)
        return {'violates': acc.d['nviol'] > 0, 'detail': acc.d['violations'][:1]}
    V = c['vars']
    tt = TT(V)
    order = c['order']
    ta = tuple(bool(x) for x in c['f'])
    idx = list(tt.all_functions()).index(ta)
    if 'g' in c:
        tb = tuple(bool(x) for x in c['g'])
        run_functions(V, order, idx, idx + 1, (lambda tt_: [tb]), acc, False)
    else:
        run_functions(V, order, idx, idx + 1, (lambda tt_: []), acc, False)
    return {'violates': acc.d['nviol'] > 0, 'detail': acc.d['violations'][:2]}
