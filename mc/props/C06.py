"""C06  Answers are independent of presentation order, naming and hash seed.

The schedules of a sequential program are its unordered-collection iteration orders.  Enumerated:
 * presentations: every bijection of the states onto 5 naming schemes, every order of the S and R
   lists (n<=2; <=2 adjacent transpositions for n=3), label containers, reversed insertion, atom
   renamings, disjoint unions with unreachable components;
 * iteration orders owned by the harness: every permutation inside each height tie group of the LTL
   closure, every successor-set order of the structure;
 * all 24 state permutations of 4-state structures (functional graphs x labellings, all total graphs
   with p everywhere / missing once);
 * hash seeds: a fixed instance list with string names run in fresh interpreters under several
   PYTHONHASHSEED values (free-running complement, not the decider).
Oracle: the result, mapped back through the renaming, equals the result of the base presentation.
No reference semantics is used.
"""
import hashlib
import itertools
import json
import os
import subprocess
import sys

from .. import spaces, lib
from ..orders import OrderedSet
from ..common import call, as_state_set, kcase, chunks
from ..runner import deadline_passed

from pyModelChecking import Kripke
import pyModelChecking.LTL.model_checking as LTLMC

RULE = ('(structure, checker, formula) instances x presentations / iteration orders as listed in '
        'scope; an instance is non-trivial if its base answer is neither empty nor all states; '
        'schedules = number of alternative presentations or iteration orders executed, '
        'distinct_outcomes must be 1 per instance')
ASSUMPTIONS = ['iteration order of the LTL closure is owned by replacing the module global '
               '_get_closure with a wrapper returning a set subclass with a chosen iteration order',
               'successor-set order is owned by installing order-preserving set subclasses in K._next',
               'the hash-seed pass samples seeds; the seed space itself cannot be enumerated']
BUDGET = {'quick': 1200, 'thorough': 5400}

P, Q = spaces.P, spaces.Q
CHECKERS = ('CTL', 'LTL', 'CTLS')

class StObj(object):
    """A state object hashed and compared by identity."""

    def __init__(self, i):
        self.i = i

    def __repr__(self):
        return 'StObj#%d@%x' % (self.i, id(self))


NAMES = {
    'objects': lambda i: StObj(i),
    'ints': lambda i: i,
    'rev-ints': lambda i: 10 - i,
    'spaced': lambda i: (8, 1, 17, 40)[i],
    'strings': lambda i: ('s0', 'zeta', 'a', 'Mm')[i],
    'tuples': lambda i: (i, 'x'),
}
ATOM_MAPS = [{'p': 'q', 'q': 'p'}, {'p': 'alpha', 'q': 'beta'}, {'p': 'p1', 'q': 'p'}, {'p': 'Xp', 'q': 'Ap'},
             {'p': 'fair', 'q': 'fair0'}, {'p': 'door open', 'q': 'door'}]


def formulas(logic, leaves, size=1):
    if logic == 'CTL':
        return [f for s in range(size + 1) for f in spaces.ctl_by_size(s, leaves)]
    gs = [g for s in range(size + 1) for g in spaces.path_by_size(s, leaves)]
    if logic == 'LTL':
        return [('A', g) for g in gs]
    out = [(q, g) for g in gs for q in 'AE']
    p = leaves[0]
    out += [('E', ('X', ('A', ('G', p)))), ('A', ('G', ('E', ('F', p)))), ('not', ('A', ('F', ('G', p))))]
    return out


def rename_atoms(f, m):
    if f[0] == 'ap':
        return ('ap', m.get(f[1], f[1]))
    if f[0] in ('t', 'f'):
        return f
    return (f[0],) + tuple(rename_atoms(x, m) for x in f[1:])


def mk(k, names, S_order=None, R_order=None, lform='set', rev_L=False, atom_map=None, extra=None):
    """Build a library Kripke for k under a presentation.  extra: (n2, succ2, lab2, cross_edges)."""
    n = k.n
    S = [names[i] for i in (S_order if S_order is not None else range(n))]
    R = [(names[i], names[j]) for i in range(n) for j in k.succ[i]]
    if R_order is not None:
        R = [R[i] for i in R_order]
    items = []
    for i in range(n):
        labs = sorted(k.lab[i])
        if atom_map:
            labs = [atom_map.get(a, a) for a in labs]
        items.append((names[i], labs))
    if extra is not None:
        n2, succ2, lab2, cross, names2 = extra
        S = S + [names2[i] for i in range(n2)]
        R = R + [(names2[i], names2[j]) for i in range(n2) for j in succ2[i]] + \
            [(names2[i], names[j]) for (i, j) in cross]
        for i in range(n2):
            items.append((names2[i], sorted(lab2[i])))
    if rev_L:
        items = items[::-1]
    if lform == 'shared':
        # states with equal labels are given one and the same set object (empty = set() reused, ...)
        pool = {}
        L = dict((nm, pool.setdefault(tuple(labs), set(labs))) for nm, labs in items)
        return Kripke(S=S, R=R, L=L)
    conv = {'set': set, 'list': list, 'frozenset': frozenset, 'tuple': tuple}[lform]
    L = dict((nm, conv(labs)) for nm, labs in items)
    return Kripke(S=S, R=R, L=L)


def atoms_in(f, out=None):
    out = set() if out is None else out
    if f[0] == 'ap':
        out.add(f[1])
    elif f[0] not in ('t', 'f'):
        for x in f[1:]:
            atoms_in(x, out)
    return out


def captured_fair_atom(k, f, m):
    """True iff the renamed formula mentions an atom named fair / fair<n> that labels no state of the
    renamed structure (the only situation finding D14 covers)."""
    import re
    present = set(m.get(a, a) for l in k.lab for a in l)
    for a in atoms_in(rename_atoms(f, m)):
        if re.match(r'fair\d*$', a) and a not in present:
            return True
    return False


def run_mc(checker, Kl, f, F=None):
    if F is None:
        return as_state_set(call(lib.LANGS[checker].modelcheck, Kl, lib.build(f, lib.LANGS[checker])))
    return as_state_set(call(lib.LANGS[checker].modelcheck, Kl, lib.build(f, lib.LANGS[checker]), F=F))


def back(res, names):
    """Map a result over named states back to indices; None if impossible."""
    if res[0] != 'set':
        return res
    inv = dict((repr(nm), i) for i, nm in enumerate(names))
    out = []
    for s in res[1]:
        if repr(s) in inv:
            out.append(inv[repr(s)])
    return ('set', sorted(out))


class Inst(object):
    """One (k, checker, formula) instance with its base answer; counts schedules/outcomes."""

    def __init__(self, k, checker, f, acc):
        self.k, self.checker, self.f, self.acc = k, checker, f, acc
        names = list(range(k.n))
        self.base = back(run_mc(checker, mk(k, names), f), names)
        self.outcomes = set([json.dumps(self.base)])
        nontriv = 1 if (self.base[0] == 'set' and 0 < len(self.base[1]) < k.n) else 0
        acc.ev(1, nontriv)
        if self.base[0] != 'set':
            acc.violation('exception', kcase(k, f, checker=checker, presentation='base'), 'a set', self.base)

    def expect(self, res, what, **more):
        self.acc.add('schedules')
        self.outcomes.add(json.dumps(res))
        if res != self.base:
            self.acc.violation('presentation-changes-answer',
                               kcase(self.k, self.f, checker=self.checker, presentation=what, **more),
                               self.base, res)
            return False
        return True


def presentations(inst, tier):
    k, c, f = inst.k, inst.checker, inst.f
    n = k.n
    ident = list(range(n))
    # 1. every bijection onto every naming scheme
    for scheme in sorted(NAMES):
        for perm in itertools.permutations(range(n)):
            names = [NAMES[scheme](perm[i]) for i in range(n)]
            if not inst.expect(back(run_mc(c, mk(k, names), f), names), 'naming',
                               scheme=scheme, perm=list(perm)):
                return
    # 2. order of the S list and of the R list
    nR = sum(len(x) for x in k.succ)
    if n <= 2:
        s_orders = list(itertools.permutations(range(n)))
        r_orders = list(itertools.permutations(range(nR))) if nR <= 4 else None
    else:
        s_orders = list(itertools.permutations(range(n)))
        r_orders = None
    if r_orders is None:
        # deviation bound on the R list: identity, reversal, every single adjacent transposition and
        # (n<=2 only) every pair of them
        base_r = list(range(nR))
        r_orders = [base_r, base_r[::-1]]
        for i in range(nR - 1):
            o = list(base_r)
            o[i], o[i + 1] = o[i + 1], o[i]
            r_orders.append(o)
            if n <= 2:
                for j in range(i + 1, nR - 1):
                    o2 = list(o)
                    o2[j], o2[j + 1] = o2[j + 1], o2[j]
                    r_orders.append(o2)
    for so in s_orders:
        for ro in r_orders:
            if not inst.expect(back(run_mc(c, mk(k, ident, S_order=list(so), R_order=list(ro)), f), ident),
                               'list-order', S_order=list(so), R_order=list(ro)):
                return
    # 3. label containers / insertion order
    for lform in ('list', 'frozenset', 'tuple', 'shared'):
        for rev in (False, True):
            if not inst.expect(back(run_mc(c, mk(k, ident, lform=lform, rev_L=rev), f), ident), 'labels',
                               lform=lform, reversed=rev):
                return
    # 4. consistent renaming of atoms
    for m in ATOM_MAPS:
        if not inst.expect(back(run_mc(c, mk(k, ident, atom_map=m), rename_atoms(f, m)), ident), 'atoms',
                           atom_map=m):
            return
    # 4b. the same with fairness constraints: the answer under F must survive renaming atoms (also to the
    # names the library uses for its own fair label), changing the label containers and renaming states
    for F in ([set()], [set([0])], [set([k.n - 1]), set(range(k.n))]):
        baseF = back(run_mc(c, mk(k, ident), f, F=[set(x) for x in F]), ident)
        if baseF[0] != 'set':
            continue
        for m in ATOM_MAPS:
            r = back(run_mc(c, mk(k, ident, atom_map=m), rename_atoms(f, m), F=[set(x) for x in F]), ident)
            inst.acc.add('schedules')
            if r != baseF and captured_fair_atom(k, f, m):
                # known finding D14: an atom of the formula called fair / fair<n> that labels no state is
                # captured by the library's own fair label
                inst.acc.finding('D14', kcase(k, f, checker=c, presentation='atoms-under-fairness', atom_map=m,
                                              F=[sorted(x) for x in F]), baseF, r)
                continue
            if r != baseF:
                inst.acc.violation('presentation-changes-answer',
                                   kcase(k, f, checker=c, presentation='atoms-under-fairness', atom_map=m,
                                         F=[sorted(x) for x in F]), baseF, r)
                return
        for lform in ('list', 'frozenset', 'shared'):
            r = back(run_mc(c, mk(k, ident, lform=lform), f, F=[set(x) for x in F]), ident)
            inst.acc.add('schedules')
            if r != baseF:
                inst.acc.violation('presentation-changes-answer',
                                   kcase(k, f, checker=c, presentation='labels-under-fairness', lform=lform,
                                         F=[sorted(x) for x in F]), baseF, r)
                return
        names = [NAMES['strings'](k.n - 1 - i) for i in range(k.n)]
        r = back(run_mc(c, mk(k, names), f, F=[set(names[i] for i in x) for x in F]), names)
        inst.acc.add('schedules')
        if r != baseF:
            inst.acc.violation('presentation-changes-answer',
                               kcase(k, f, checker=c, presentation='naming-under-fairness', F=[sorted(x) for x in F]),
                               baseF, r)
            return
    # 5. extra states that are unreachable from the original ones
    extras = [(1, ((0,),), (('p',),)), (1, ((0,),), ((),)), (2, ((1,), (0,)), (('p', 'q'), ())),
              (2, ((0, 1), (1,)), (('q',), ('p',)))]
    for ei, (n2, succ2, lab2) in enumerate(extras):
        for cross in ((), ((0, 0),), tuple((i, n - 1) for i in range(n2))):
            for first in (False, True):
                names2 = [100 + i for i in range(n2)] if not first else [-5 - i for i in range(n2)]
                Kl = mk(k, ident, extra=(n2, succ2, lab2, cross, names2))
                if not inst.expect(back(run_mc(c, Kl, f), ident), 'unreachable-extra', extra=ei,
                                   cross=[list(x) for x in cross], negative_names=first):
                    return
                if not first:
                    # the added states share their label set objects with equally labelled original states
                    Kl = mk(k, ident, extra=(n2, succ2, lab2, cross, names2), lform='shared')
                    if not inst.expect(back(run_mc(c, Kl, f), ident), 'unreachable-extra', extra=ei,
                                       cross=[list(x) for x in cross], shared_label_sets=True):
                        return


# ------------------------------------------------------------------ iteration orders

class OrderedClosure(set):
    def __init__(self, items, order):
        super(OrderedClosure, self).__init__(items)
        self._order = list(order)

    def __iter__(self):
        return iter(list(self._order))


# harness-side control point; if the library no longer has a private helper of this name the closure
# order cannot be owned and the closure shards report that instead of guessing (naming, list-order and
# hash-seed presentations still apply)
_orig_get_closure = getattr(LTLMC, '_get_closure', None)
_CL = {'order_fn': None}


def _closure_wrapper(formula):
    cl = _orig_get_closure(formula)
    fn = _CL['order_fn']
    if fn is None:
        return cl
    return OrderedClosure(cl, fn(list(cl)))


def run_route(route, Kl, f):
    """LTL: LTL.modelcheck on LTL-typed objects; LTL<-CTLS: LTL.modelcheck on CTL*-typed objects;
    CTLS: CTLS.modelcheck on CTL*-typed objects (falls back to the tableau for non-CTL formulas)."""
    if route == 'LTL':
        return run_mc('LTL', Kl, f)
    if route == 'LTL<-CTLS':
        return as_state_set(call(lib.LTL.modelcheck, Kl, lib.build(f, lib.CTLS)))
    return as_state_set(call(lib.CTLS.modelcheck, Kl, lib.build(f, lib.CTLS)))


def sort_key(a):
    from pyModelChecking import CTLS
    if isinstance(a, CTLS.Not) and isinstance(a.subformula(0), CTLS.X):
        return a.height - 1
    return a.height


def closure_orders(k, f, acc, inst, max_orders, route='LTL'):
    """Run LTL.modelcheck under every permutation of each height tie group of the closure."""
    if _orig_get_closure is None:
        acc.add('closure_control_point_absent')
        return
    LTLMC._get_closure = _closure_wrapper
    try:
        # discover the closure once (default order), then enumerate orders
        seen = {}

        def probe(items):
            seen['items'] = sorted(items, key=lambda x: (sort_key(x), str(x)))
            return seen['items']
        _CL['order_fn'] = probe
        Kl = lib.to_kripke(k)
        r0 = back(run_route(route, Kl, f), list(range(k.n)))
        inst.expect(r0, 'closure-order', order='canonical', route=route)
        items = seen.get('items')
        if not items:
            return
        groups = []
        for key, grp in itertools.groupby(items, key=sort_key):
            groups.append(list(grp))
        total = 1
        for g in groups:
            for i in range(2, len(g) + 1):
                total *= i
        if total <= max_orders:
            combos = itertools.product(*[list(itertools.permutations(g)) for g in groups])
            exhaustive = True
        else:
            # bound deviations: all orders within <=2 adjacent transpositions inside tie groups
            flat = items
            idx = []
            pos = 0
            for g in groups:
                for i in range(len(g) - 1):
                    idx.append(pos + i)
                pos += len(g)
            combos = []
            for a in range(len(idx)):
                o = list(flat)
                o[idx[a]], o[idx[a] + 1] = o[idx[a] + 1], o[idx[a]]
                combos.append([o])
                for b in range(a, len(idx)):
                    o2 = list(o)
                    o2[idx[b]], o2[idx[b] + 1] = o2[idx[b] + 1], o2[idx[b]]
                    combos.append([o2])
            # also the fully reversed tie groups
            combos.append([[x for g in groups for x in g[::-1]]])
            exhaustive = False
            acc.add('closure_instances_deviation_bounded')
        combos = list(combos)
        # any permutation of a set is a legal iteration order: also try orders that do not depend on
        # the harness's idea of the tie groups - whole-list reversal, every adjacent transposition,
        # and every permutation inside groups of equal RAW height
        combos.append([items[::-1]])
        for i in range(len(items) - 1):
            o = list(items)
            o[i], o[i + 1] = o[i + 1], o[i]
            combos.append([o])
        raw = []
        for key, grp in itertools.groupby(sorted(items, key=lambda x: (x.height, str(x))), key=lambda x: x.height):
            raw.append(list(grp))
        nraw = 1
        for g in raw:
            for i in range(2, len(g) + 1):
                nraw *= i
        if nraw <= max_orders:
            for combo in itertools.product(*[list(itertools.permutations(g)) for g in raw]):
                combos.append([[x for g in combo for x in g]])
        for combo in combos:
            order = [x for g in combo for x in g]
            strs = [str(x) for x in order]

            def fixed(its, strs=strs):
                by = dict((str(x), x) for x in its)
                return [by[s] for s in strs if s in by] + [x for x in its if str(x) not in set(strs)]
            _CL['order_fn'] = fixed
            r = back(run_route(route, lib.to_kripke(k), f), list(range(k.n)))
            if not inst.expect(r, 'closure-order', order=strs, route=route):
                return
        if exhaustive:
            acc.add('closure_instances_exhaustive')
    finally:
        _CL['order_fn'] = None
        LTLMC._get_closure = _orig_get_closure


def successor_orders(k, c, f, inst):
    succ = dict((i, list(k.succ[i])) for i in range(k.n))
    keys = list(range(k.n))
    for combo in itertools.product(*[list(itertools.permutations(succ[i])) for i in keys]):
        for node_order in (list(range(k.n)), list(range(k.n))[::-1]):
            Kl = mk(k, list(range(k.n)), S_order=node_order)
            if not lib.owns_adjacency(Kl):
                inst.acc.add('successor_control_point_absent')
                return
            for i in keys:
                Kl._next[i] = OrderedSet(combo[i])
            r = back(run_mc(c, Kl, f), list(range(k.n)))
            if not inst.expect(r, 'successor-order', order=[list(x) for x in combo], node_order=node_order):
                return


# ------------------------------------------------------------------ hash seeds

def seed_instances():
    """Fixed instance list with string state names and multi-character atoms."""
    out = []
    reps = spaces.kripke_reps(2)
    k3 = spaces.kripke_reps(3, ('p',))
    m = {'p': 'ready', 'q': 'Grant'}
    forms = {'CTL': [f for f in spaces.ctl_by_size(1, spaces.LEAVES2)][::3],
             'LTL': [('A', g) for g in spaces.path_by_size(1, spaces.LEAVES2)] +
                    [('A', g) for g in spaces.path_by_size(2, spaces.LEAVES2)[::41]],
             'CTLS': [(q, g) for g in spaces.path_by_size(2, spaces.LEAVES2)[::53] for q in 'AE']}
    i = 0
    for k in reps[::3] + k3[::25]:
        for c in CHECKERS:
            for f in forms[c][(i % 3)::3]:
                out.append((k, c, rename_atoms(f, m)))
                i += 1
    return out[:320]


def seed_digest():
    m = {'p': 'ready', 'q': 'Grant'}
    names = ['idle', 'Busy_1', 'zz', 'Ωmega']
    h = hashlib.sha256()
    n = 0
    for k, c, f in seed_instances():
        Kl = mk(k, names[:k.n], atom_map=m)
        r = back(run_mc(c, Kl, f), names[:k.n])
        h.update(json.dumps([k.to_json(), c, spaces.fstr(f), r]).encode())
        n += 1
    return n, h.hexdigest()


def scope(tier, seed):
    return {'quick tier': 'LTL/CTL* presentations on iso-representatives and a seed-indexed third of the '
                          'formulas; closure orders on size-1 formulas and 1/24 of size 2' if tier == 'quick'
            else 'everything listed',
            'presentations': 'all 148 labelled K(<=2) x (CTL 44, LTL 30, CTL* 63 one-operator formulas over '
                             '{p,q}) and K(3,{p}) representatives x formulas over {p}: 5 naming schemes x all '
                             'bijections, S/R list orders, label containers, 4 atom renamings, 24 '
                             'unreachable extensions',
            'closure orders': 'LTL: representatives of K(<=2) x size<=2 formulas: all permutations inside '
                              'height tie groups when <= %d orders, else <=2 adjacent transpositions'
                              % (120 if tier == 'quick' else 720),
            'closure orders (CTL*-typed routes)': 'LTL.modelcheck on CTL* objects and CTLS.modelcheck: K(1) and a '
                                                  'stride of K(2) representatives x negation-rich path formulas',
            'successor orders': 'K(<=2) reps and K(3,{p}) reps: every successor-set order x 2 node orders',
            '4 states': 'all 24 renamings of: functional graphs x {p,q}-labellings (quick: a seed block), '
                        'all total graphs with p everywhere / missing once',
            'hash seeds': '%d seeds x %d fixed instances in fresh interpreters' % (8 if tier == 'quick' else 32, 320)}


def plan(tier, seed):
    sh = []
    for lo, hi in chunks(148, 2):
        sh.append(['pres2', lo, hi])
    n3 = len(spaces.kripke_reps(3, ('p',)))
    for lo, hi in chunks(n3, 16 if tier == 'quick' else 8):
        sh.append(['pres3', lo, hi])
    for lo, hi in chunks(82, 2):
        sh.append(['closure', lo, hi])
    for i in range(48):
        sh.append(['closure2', i, 48])
    for lo, hi in chunks(82, 4):
        sh.append(['succ2', lo, hi])
    for lo, hi in chunks(n3, 24):
        sh.append(['succ3', lo, hi])
    for lo, hi in chunks(256, 8):
        sh.append(['perm4f', lo, hi])
    for lo, hi in chunks(50625, 2048):
        sh.append(['perm4g', lo, hi])
    nseeds = 8 if tier == 'quick' else 32
    seeds = [0, 1, 2, 3] + [(seed * 7919 + 13 * j + 5) % 100000 for j in range(nseeds - 4)]
    for s in seeds:
        sh.append(['hashseed', s])
    return sh


def run_shard(shard, tier, seed, acc):
    kind = shard[0]
    if kind in ('pres2', 'pres3'):
        if kind == 'pres2':
            ks = (list(spaces.kripkes(1)) + list(spaces.kripkes(2)))[shard[1]:shard[2]]
            leaves = spaces.LEAVES2
        else:
            ks = spaces.kripke_reps(3, ('p',))[shard[1]:shard[2]]
            leaves = (P,)
        reps2 = set(x.key() for x in spaces.kripke_reps(1) + spaces.kripke_reps(2))
        for k in ks:
            for c in CHECKERS:
                forms = formulas(c, leaves)
                if tier == 'quick' and c != 'CTL':
                    # tableau-based checkers are ~10x slower: quick covers iso-representatives and a
                    # seed-indexed third of the formulas, thorough everything
                    if kind == 'pres2' and k.key() not in reps2:
                        continue
                    forms = forms[(seed % 3)::3]
                for f in forms:
                    if deadline_passed():
                        acc.capped()
                        return
                    inst = Inst(k, c, f, acc)
                    if inst.base[0] == 'set':
                        presentations(inst, tier)
                    acc.add('distinct_outcomes_max', 0)
                    if len(inst.outcomes) > 1:
                        acc.add('instances_with_several_outcomes')
            acc.sample({'k': k.to_json(), 'presentations': 'namings, list orders, containers, atoms, extras'})
        return
    if kind == 'closure':
        reps = (spaces.kripke_reps(1) + spaces.kripke_reps(2))[shard[1]:shard[2]]
        if tier == 'quick':
            gs = spaces.path_by_size(1, spaces.LEAVES2) + spaces.path_by_size(2, spaces.LEAVES2)[(seed % 24)::24]
        else:
            gs = spaces.path_by_size(1, spaces.LEAVES2) + spaces.path_by_size(2, spaces.LEAVES2)[(seed % 6)::6]
        # + formulas in which two eventualities promise the same formula (p U q with F q, p U q with
        # not p U q): bookkeeping per promise instead of per eventuality depends on the closure order
        P_, Q_ = spaces.P, spaces.Q
        U1, U2, U3 = ('U', P_, Q_), ('F', Q_), ('U', ('not', P_), Q_)
        gs = gs + [('imp', U1, U2), ('imp', U2, U1), ('or', U1, U3), ('and', U1, U2)] + \
            ([] if tier == 'quick' else [('imp', U3, U1), ('or', ('not', U1), U2, U3), ('U', U1, U2),
                                         ('G', ('imp', U2, U1))])
        for k in reps:
            for g in gs:
                if deadline_passed():
                    acc.capped()
                    return
                f = ('A', g)
                inst = Inst(k, 'LTL', f, acc)
                if inst.base[0] == 'set':
                    closure_orders(k, f, acc, inst, 120 if tier == 'quick' else 720)

        acc.sample({'k': reps[0].to_json(), 'formula': 'A(G(p) or F(q))', 'orders': 'tie-group permutations'})
        return
    if kind == 'closure2':
        # the tableau is also reached with CTL*-typed formula objects (LTL.modelcheck on a CTL* object,
        # CTLS.modelcheck falling back to it): same closure-order enumeration on those routes, over the
        # negation-rich family where `not X f` / `X not f` pairs occur
        from .. import members
        reps = spaces.kripke_reps(1) + spaces.kripke_reps(2)[::(4 if tier == 'quick' else 2)]
        gs = [g for g in spaces.path_by_size(1, spaces.LEAVES2) if spaces.n_temporal(g) >= 1] + \
             [g for g in spaces.negated_path() if spaces.n_temporal(g) >= 1][::(2 if tier == 'quick' else 1)]
        work = [(k, g) for k in reps for g in gs]
        for k, g in work[shard[1]::shard[2]]:
            if deadline_passed():
                acc.capped()
                return
            f = ('A', g)
            inst = Inst(k, 'LTL', f, acc)
            if inst.base[0] != 'set':
                continue
            closure_orders(k, f, acc, inst, 24 if tier == 'quick' else 120, route='LTL<-CTLS')
            if not members.ctl_state(f):
                closure_orders(k, f, acc, inst, 24 if tier == 'quick' else 120, route='CTLS')
        acc.sample({'route': 'LTL.modelcheck(K, CTLS.A(...))', 'formula': 'A(X(not(p)))',
                    'orders': 'tie-group permutations, reversal, adjacent transpositions'})
        return
    if kind in ('succ2', 'succ3'):
        if kind == 'succ2':
            ks = (spaces.kripke_reps(1) + spaces.kripke_reps(2))[shard[1]:shard[2]]
            leaves = spaces.LEAVES2
        else:
            ks = spaces.kripke_reps(3, ('p',))[shard[1]:shard[2]]
            leaves = (P,)
        for k in ks:
            for c in ('CTL', 'LTL'):
                forms = formulas(c, leaves)
                if kind == 'succ3':
                    forms = forms[::2] if c == 'CTL' else forms[::4]
                for f in forms:
                    if deadline_passed():
                        acc.capped()
                        return
                    inst = Inst(k, c, f, acc)
                    if inst.base[0] == 'set':
                        successor_orders(k, c, f, inst)
        return
    if kind == 'perm4f':
        # functional graphs on 4 states (every state exactly one successor) x labellings over {p,q}
        NP = ('not', P)
        forms = [('E', ('U', P, Q)), ('A', ('U', P, Q)), ('E', ('G', P)), ('A', ('F', Q)), ('E', ('R', Q, P))]
        labs = list(spaces.labellings(4, ('p', 'q')))
        block = seed % 8
        for gi in range(shard[1], shard[2]):
            succ = tuple(((gi // (4 ** i)) % 4,) for i in range(4))
            for li, lab in enumerate(labs):
                if tier == 'quick' and li % 8 != block:
                    continue
                if deadline_passed():
                    acc.capped()
                    return
                k = spaces.K(4, succ, lab)
                perm_check(k, 'CTL', forms, acc)
        acc.sample({'succ': [[1], [1], [3], [3]], 'labels': [['p'], ['p', 'q'], ['p'], ['q']],
                    'formula': 'E(p U q)', 'renamings': 24})
        return
    if kind == 'perm4g':
        NP = ('not', P)
        forms = [('E', ('G', P)), ('A', ('F', NP))]
        for gi, succ in enumerate(itertools.islice(spaces.graphs_total(4), shard[1], shard[2])):
            if tier == 'quick' and (shard[1] + gi) % 4 != seed % 4:
                continue
            if deadline_passed():
                acc.capped()
                return
            perm_check(spaces.K(4, succ, [('p',)] * 4), 'CTL', forms[:1], acc)
            for miss in range(4):
                perm_check(spaces.K(4, succ, [() if i == miss else ('p',) for i in range(4)]), 'CTL',
                           forms, acc, perms=[(1, 2, 3, 0), (3, 2, 1, 0), (2, 0, 3, 1)])
        return
    if kind == 'hashseed':
        p = subprocess.run([sys.executable, '-m', 'mc.props.C06', '--digest'],
                           cwd=os.path.dirname(os.path.dirname(os.path.dirname(os.path.abspath(__file__)))),
                           stdout=subprocess.PIPE, stderr=subprocess.PIPE,
                           env=dict(os.environ, PYTHONHASHSEED=str(shard[1])))
        lines = [l for l in p.stdout.decode().splitlines() if l.startswith('DIGEST ')]
        p0 = subprocess.run([sys.executable, '-m', 'mc.props.C06', '--digest'],
                            cwd=os.path.dirname(os.path.dirname(os.path.dirname(os.path.abspath(__file__)))),
                            stdout=subprocess.PIPE, stderr=subprocess.PIPE,
                            env=dict(os.environ, PYTHONHASHSEED='0'))
        lines0 = [l for l in p0.stdout.decode().splitlines() if l.startswith('DIGEST ')]
        if not lines or not lines0:
            acc.harness_error('digest subprocess failed: %s' % (p.stderr.decode()[-300:]))
            return
        n = int(lines[-1].split()[1])
        acc.ev(n, n // 2)
        acc.add('schedules', n)
        if lines[-1] != lines0[-1]:
            # locate the first differing instance
            acc.violation('hash-seed-changes-answer', {'seed': shard[1]}, lines0[-1], lines[-1])
        return
    raise ValueError(shard)


def perm_check(k, c, forms, acc, perms=None):
    ident = list(range(k.n))
    Kl0 = mk(k, ident)
    for f in forms:
        base = back(run_mc(c, Kl0, f), ident)
        acc.ev(1, 1 if (base[0] == 'set' and 0 < len(base[1]) < k.n) else 0)
        if base[0] != 'set':
            acc.violation('exception', kcase(k, f, checker=c, presentation='base'), 'a set', base)
            continue
        for perm in (perms if perms is not None else itertools.permutations(range(k.n))):
            if list(perm) == ident:
                continue
            names = [perm[i] for i in range(k.n)]
            r = back(run_mc(c, mk(k, names), f), names)
            acc.add('schedules')
            if r != base:
                acc.violation('presentation-changes-answer',
                              kcase(k, f, checker=c, presentation='naming', scheme='ints', perm=list(perm)),
                              base, r)
                break


def replay(art):
    from ..runner import Acc
    c = art['case']
    acc = Acc()
    if art['kind'] == 'hash-seed-changes-answer':
        run_shard(['hashseed', c['seed']], 'quick', 0, acc)
        return {'violates': acc.d['nviol'] > 0, 'detail': acc.d['violations'][:1]}
    k = spaces.K.from_json(c['k'])
    f = spaces.from_jsonable(c['f'])
    ck = c['checker']
    pres = c.get('presentation')
    if art['kind'].startswith('finding:'):
        inst = Inst(k, ck, f, acc)
        presentations(inst, 'thorough')
        fid = sorted(acc.d['findings'])[0] if acc.d['findings'] else None
        return {'violates': acc.d['nviol'] > 0 or fid is not None, 'finding': None if acc.d['nviol'] else fid}
    if k.n == 4:
        perm_check(k, ck, [f], acc)
    else:
        inst = Inst(k, ck, f, acc)
        if pres == 'closure-order':
            closure_orders(k, f, acc, inst, 5040, route=c.get('route', 'LTL'))
        elif pres == 'successor-order':
            successor_orders(k, ck, f, inst)
        else:
            presentations(inst, 'thorough')
    return {'violates': acc.d['nviol'] > 0, 'detail': acc.d['violations'][:1]}


if __name__ == '__main__':
    if '--digest' in sys.argv:
        import io
        out = sys.stdout
        sys.stdout = io.StringIO()
        n, d = seed_digest()
        sys.stdout = out
        print('DIGEST %d %s' % (n, d))
