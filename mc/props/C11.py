"""C11  Formula equality, hashing and cloning are coherent.

Alphabet: per logic all formulas of size<=2 over atoms {p,q} and constants (+ 3-ary and/or, special
          printer shapes, a 3-name atom menu); all ordered pairs; triples of a core set; Bool vs bool;
          clone identity walks and clone mutations.
Oracle  : f == g  <=>  same tree (structural reader); hash/set/dict behaviour follows; clone equal
          and node-disjoint.
"""
import itertools

from .. import spaces, lib
from ..common import call, chunks
from ..runner import deadline_passed
from .C09 import special_forms, subst

RULE = ('all ordered pairs of the per-logic formula pool (size<=2 + families), grouped by printed '
        'form; all triples of a 60-formula core; every pool formula cloned; non-trivial pair = the '
        'two formulas differ but share their multiset of atoms and operators, or are equal')
ASSUMPTIONS = ['atom names are non-reserved identifiers', 'comparisons are within one logic']
BUDGET = {'quick': 600, 'thorough': 1800}
LOGICS = ('PL', 'LTL', 'CTLS', 'CTL')


def pool(logic, tier):
    if logic == 'PL':
        fs = spaces.pl_by_size(0) + spaces.pl_by_size(1) + spaces.pl_by_size(2) + spaces.nary_props()
    elif logic == 'LTL':
        ps = spaces.path_by_size(0) + spaces.path_by_size(1) + spaces.path_by_size(2, spaces.LEAVES2)
        fs = ps + [('A', g) for g in spaces.path_by_size(0) + spaces.path_by_size(1)] + spaces.nary_path()[::2]
    elif logic == 'CTLS':
        fs = spaces.ctls_path_by_size(0) + spaces.ctls_path_by_size(1) + \
            spaces.ctls_path_by_size(2, spaces.LEAVES2) + spaces.nary_path()[::2]
    else:
        fs = spaces.ctl_by_size(0) + spaces.ctl_by_size(1) + spaces.ctl_by_size(2, spaces.LEAVES2) + \
            spaces.nary_ctl()[::2]
    fs = fs + special_forms(logic)
    extra = [subst(f, {'p': 'Ap', 'q': 'p_q'}) for f in fs[:300]]
    # atoms whose names are an operator word glued to a name, or differ only in letter case
    glue = [('ap', x) for x in ('notp', 'AXp', 'EGp', 'Fq', 'Xp', 'pandq', 'porq', 'pUq', 'P', 'Q', 'Start',
                                'start', 'notP', 'Notp', 'p_', '_p', 'pq', 'qp')]
    small = [f for f in fs if spaces.size_of(f) <= 1][:160]
    extra += glue + [subst(f, {'p': 'P'}) for f in small] + [subst(f, {'q': 'Q', 'p': 'notp'}) for f in small[:80]]
    out = []
    seen = set()
    for f in fs + extra:
        if f not in seen:
            seen.add(f)
            out.append(f)
    return out


def scope(tier, seed):
    return dict((lg, '%d formulas: all ordered pairs (equality only inside printed-form / hash '
                     'groups + full cross product of a 400-formula core)' % len(pool(lg, tier)))
                for lg in LOGICS)


def plan(tier, seed):
    sh = []
    for lg in LOGICS:
        sh.append(['groups', lg])
        sh.append(['clone', lg])
        sh.append(['edits', lg])
        for i in range(8):
            sh.append(['cross', lg, i, 8])
        sh.append(['triples', lg])
    sh.append(['bool'])
    return sh


def sig(t):
    """Multiset of symbols of a tree (used only to count non-trivial pairs)."""
    if t[0] in ('ap', 't', 'f'):
        return (t,)
    out = (t[0],)
    for x in t[1:]:
        out = out + sig(x)
    return tuple(sorted(out, key=repr))


def nodes_of(obj):
    """Every mutable part of a formula: the node objects and the operand lists of operator nodes."""
    out = [obj]
    if type(obj).__name__ not in ('Bool', 'AtomicProposition'):
        out.append(obj._subformula)
        for x in obj._subformula:
            out.extend(nodes_of(x))
    return out


def build_raw(f, L):
    """Build f the other documented way: leaf operands handed over as plain str / bool, the constructor
    doing the wrapping (And('p', True), Not('q'), ...).  A leaf at the root stays an object."""
    def operand(x):
        if x[0] == 't':
            return True
        if x[0] == 'f':
            return False
        if x[0] == 'ap':
            return x[1]
        return build_raw(x, L)
    if f[0] in ('t', 'f', 'ap'):
        return lib.build(f, L)
    return getattr(L, lib.OP2CLASS[f[0]])(*[operand(x) for x in f[1:]])


def check_pair(lg, tf, tg, f, g, acc):
    same = tf == tg
    nontriv = 1 if (same or sig(tf) == sig(tg)) else 0
    acc.ev(1, nontriv)
    case = {'logic': lg, 'f': spaces.fstr(tf), 'g': spaces.fstr(tg),
            'f_tree': spaces.to_jsonable(tf), 'g_tree': spaces.to_jsonable(tg)}
    r1 = call(lambda: f == g)
    r2 = call(lambda: g == f)
    rn = call(lambda: f != g)
    if r1[0] != 'ok' or r2[0] != 'ok' or rn[0] != 'ok':
        acc.violation('eq-exception', case, same, [r1[1:], r2[1:], rn[1:]])
        return
    if bool(r1[1]) != same:
        acc.violation('eq-wrong', case, same, r1[1])
        return
    if bool(r2[1]) != bool(r1[1]):
        acc.violation('eq-not-symmetric', case, r1[1], r2[1])
    if bool(rn[1]) == bool(r1[1]):
        acc.violation('ne-inconsistent', case, not r1[1], rn[1])
    if same:
        if hash(f) != hash(g):
            acc.violation('equal-but-different-hash', case)
        if len({f, g}) != 1 or {f: 1}.get(g) != 1 or g not in {f}:
            acc.violation('equal-but-two-keys', case)
    else:
        if len({f, g}) != 2 or g in {f: 1}:
            acc.violation('different-but-one-key', case)


def run_shard(shard, tier, seed, acc):
    kind = shard[0]
    if kind == 'bool':
        for lg in LOGICS:
            L = lib.LANGS[lg]
            for b in (True, False):
                for c in (True, False):
                    o = L.Bool(b)
                    acc.ev(1, 1)
                    res = [call(lambda: o == c), call(lambda: c == o), call(lambda: o != c),
                           call(lambda: o == L.Bool(c)), call(lambda: hash(o) == hash(L.Bool(b)))]
                    exp = [b == c, b == c, b != c, b == c, True]
                    got = [r[1] if r[0] == 'ok' else r[1:] for r in res]
                    if got != exp:
                        acc.violation('bool-eq', {'logic': lg, 'b': b, 'c': c}, exp, got)
                for name in ('True', 'False', 'TRUE', 'T', 'p', 'true_', 'Falsey', '_true'):
                    # identifiers that merely resemble the constants are ordinary atoms
                    ap = L.AtomicProposition(name)
                    o = L.Bool(b)
                    acc.ev(1, 1)
                    res = [call(lambda: o == ap), call(lambda: ap == o), call(lambda: o != ap),
                           call(lambda: len({o, ap})), call(lambda: ap in {o: 1})]
                    exp = [False, False, True, 2, False]
                    got = [r[1] if r[0] == 'ok' else r[1:] for r in res]
                    if got != exp:
                        acc.violation('bool-eq', {'logic': lg, 'b': b, 'atom': name}, exp, got)
                for other in (0, 1, 'true', 'false', None, L.AtomicProposition('true'),
                              L.AtomicProposition('false')):
                    o = L.Bool(b)
                    r = call(lambda: o == other)
                    acc.ev(1, 1)
                    # Bool against a non-bool: equality with the ints 0/1 follows Python's bool==int;
                    # only exceptions and True for clearly different things are flagged
                    if r[0] != 'ok':
                        acc.violation('bool-eq-exception', {'logic': lg, 'b': b, 'other': repr(other)},
                                      'a boolean', r[1:])
                    elif other is None and r[1]:
                        acc.violation('bool-eq', {'logic': lg, 'b': b, 'other': 'None'}, False, True)
        return
    lg = shard[1]
    L = lib.LANGS[lg]
    P = pool(lg, tier)
    if kind == 'groups':
        objs = [(t, lib.build(t, L)) for t in P]
        objs2 = [(t, lib.build(t, L)) for t in P]
        # reflexivity and equality against an independently built twin
        for (t, o), (t2, o2) in zip(objs, objs2):
            check_pair(lg, t, t, o, o, acc)
            check_pair(lg, t, t2, o, o2, acc)
        # group by printed form and by hash: all pairs inside a group
        by = {}
        for t, o in objs:
            by.setdefault(('s', str(o)), []).append((t, o))
            by.setdefault(('h', hash(o)), []).append((t, o))
        for key, grp in by.items():
            if len(grp) > 1:
                for (t1, o1), (t2, o2) in itertools.permutations(grp, 2):
                    check_pair(lg, t1, t2, o1, o2, acc)
        # one big set / dict: the number of keys must be the number of distinct trees
        sset = set(o for t, o in objs) | set(o for t, o in objs2)
        if len(sset) != len(P):
            acc.violation('set-size', {'logic': lg, 'pool': len(P)}, len(P), len(sset))
        d = dict((o, t) for t, o in objs)
        for t, o in objs2:
            if d.get(o) != t:
                acc.violation('dict-lookup', {'logic': lg, 'f': spaces.fstr(t), 'f_tree': spaces.to_jsonable(t),
                                              'g': spaces.fstr(t), 'g_tree': spaces.to_jsonable(t)},
                              spaces.fstr(t), None if d.get(o) is None else spaces.fstr(d.get(o)))
                break
        acc.sample({'logic': lg, 'pool': len(P), 'example': spaces.fstr(P[len(P) // 2])})
        return
    if kind == 'cross':
        # a mix: the smallest formulas, every n-ary / prefix-related shape, then a stride of the rest
        nary_like = [t for t in P if t[0] in ('and', 'or') and len(t) >= 4][:120]
        gluey = [t for t in P if any(a in repr(t) for a in ("'notp'", "'AXp'", "'EGp'", "'P'", "'Start'", "'start'",
                                                           "'pandq'", "'Fq'", "'Xp'"))][:120]
        core = P[:160] + nary_like + special_forms(lg)[:60] + gluey
        rest = [t for t in P[160:] if t not in set(core)]
        core = core + rest[::max(1, len(rest) // 120)][:120]
        seen_core = set()
        core = [t for t in core if not (t in seen_core or seen_core.add(t))]
        objs = [(t, lib.build(t, L)) for t in core]
        for i, (t1, o1) in enumerate(objs):
            if i % shard[3] != shard[2]:
                continue
            if deadline_passed():
                acc.capped()
                return
            for (t2, o2) in objs:
                check_pair(lg, t1, t2, o1, o2, acc)
        return
    if kind == 'triples':
        core = P[:40] + special_forms(lg)[:20]
        objs = [lib.build(t, L) for t in core]
        objs_b = [lib.build(t, L) for t in core]
        objs_c = [lib.build(t, L) for t in core]
        n = len(core)
        for i in range(n):
            for j in range(n):
                eij = objs[i] == objs_b[j]
                for k in range(n):
                    acc.ev(1, 1 if (core[i] == core[j] == core[k]) else 0)
                    if eij and (objs_b[j] == objs_c[k]) and not (objs[i] == objs_c[k]):
                        acc.violation('eq-not-transitive',
                                      {'logic': lg, 'f': spaces.fstr(core[i]), 'g': spaces.fstr(core[j]),
                                       'h': spaces.fstr(core[k])})
        return
    if kind == 'edits':
        # histories: use a formula as a key, edit a node below the root with the documented mutator
        # wrap_subformulas, compare with a freshly built formula of the new tree; clone chains
        Pn = [t for t in P if spaces.size_of(t) >= 2 and t[0] not in ('ap', 't', 'f')][:300]
        repl = ('ap', 'zz')
        for t in Pn:
            o = lib.build(t, L)
            h0 = hash(o)
            s0 = {o: 1}
            # find a non-root operator node and replace its first operand
            child_i = None
            for i, x in enumerate(t[1:]):
                if x[0] not in ('ap', 't', 'f'):
                    child_i = i
                    break
            if child_i is None:
                continue
            sub = t[1 + child_i]
            new_sub = (sub[0], repl) + tuple(sub[2:])
            node = o._subformula[child_i]
            cls_arg = [lib.build(repl, L)] + [x for x in node._subformula[1:]]
            FormulaClass = type(node._subformula[0]).__mro__[0]
            r = call(lambda: node.__init__(*cls_arg))
            acc.ev(1, 1)
            if r[0] != 'ok':
                continue     # the operator refuses the new operand: nothing to compare
            t2 = t[:1 + child_i] + (new_sub,) + t[2 + child_i:]
            rr = call(lib.read, o)
            if rr[0] != 'ok' or rr[1] != t2:
                continue     # the edit did not produce the intended tree (operator-specific init)
            fresh = lib.build(t2, L)
            case = {'logic': lg, 'f': spaces.fstr(t), 'g': spaces.fstr(t2), 'f_tree': spaces.to_jsonable(t),
                    'g_tree': spaces.to_jsonable(t2), 'history': 'hash(f); re-initialise a node below the root; '
                    'compare with a freshly built formula of the new tree'}
            if not (o == fresh) or not (fresh == o):
                acc.violation('edited-not-equal-to-fresh', case)
            elif hash(o) != hash(fresh) or len({o, fresh}) != 1 or fresh not in {o: 1}:
                acc.violation('equal-but-different-hash-after-edit', case)
            c = call(o.clone)
            if c[0] == 'ok' and (lib.read(c[1]) != t2 or hash(c[1]) != hash(fresh)):
                acc.violation('clone-after-edit-differs', case)
        # clone chains: clone of a clone, clone / mutate the clone / clone again
        for t in P[:400]:
            o = lib.build(t, L)
            c1 = o.clone()
            c2 = c1.clone()
            acc.ev(1, 1 if spaces.size_of(t) >= 1 else 0)
            case = {'logic': lg, 'f': spaces.fstr(t), 'f_tree': spaces.to_jsonable(t), 'history': 'clone of a clone'}
            ids1 = set(id(x) for x in nodes_of(c1)) | set(id(x) for x in nodes_of(o))
            if lib.read(c2) != t or any(id(x) in ids1 for x in nodes_of(c2)):
                acc.violation('clone-chain-shares-node', case)
                continue
            for x in nodes_of(c1):
                if type(x).__name__ == 'AtomicProposition':
                    x.name = 'mutated'
                elif type(x).__name__ == 'Bool':
                    x._value = not x._value
            c3 = o.clone()
            if lib.read(c3) != t or lib.read(o) != t or lib.read(c2) != t or not (c3 == o):
                acc.violation('clone-after-mutated-clone-differs', case, spaces.fstr(t), str(c3))
        return
    if kind == 'clone':
        for t, raw in [(t, raw) for t in P for raw in (False, True)]:
            if raw and spaces.size_of(t) < 1:
                continue
            o = build_raw(t, L) if raw else lib.build(t, L)
            acc.ev(1, 1 if spaces.size_of(t) >= 1 else 0)
            case = {'logic': lg, 'f': spaces.fstr(t), 'f_tree': spaces.to_jsonable(t), 'raw_operands': raw}
            if raw and lib.read(o) != t:
                acc.violation('constructor-wraps-wrongly', case, spaces.fstr(t), str(o))
                continue
            r = call(o.clone)
            if r[0] != 'ok':
                acc.violation('clone-exception', case, None, r[1:])
                continue
            c = r[1]
            rr = call(lib.read, c)
            if rr[0] != 'ok' or rr[1] != t:
                acc.violation('clone-differs', case, spaces.fstr(t), rr[1:])
                continue
            if not (c == o) or not (o == c) or hash(c) != hash(o):
                acc.violation('clone-not-equal', case)
            if type(c) is not type(o):
                acc.violation('clone-other-class', case, type(o).__name__, type(c).__name__)
            ids = set(id(x) for x in nodes_of(o))
            if any(id(x) in ids for x in nodes_of(c)):
                acc.violation('clone-shares-node', case)
                continue
            if lib.read(o) != t:
                acc.violation('clone-modified-original', case)
            # mutate the clone: the original must not notice
            before = str(o)
            for x in nodes_of(c):
                if isinstance(x, list):
                    continue
                if type(x).__name__ == 'AtomicProposition':
                    x.name = 'zz'
                elif type(x).__name__ == 'Bool':
                    x._value = not x._value
                else:
                    x._subformula.reverse()
                    x._subformula.append(x._subformula[0])
            if str(o) != before or lib.read(o) != t:
                acc.violation('clone-mutation-leaks', case, before, str(o))
        return
    raise ValueError(shard)


def replay(art):
    from ..runner import Acc
    c = art['case']
    acc = Acc()
    kind = art['kind']
    if kind.startswith('bool'):
        run_shard(['bool'], 'quick', 0, acc)
    elif kind.startswith('clone'):
        lg = c['logic']
        t = spaces.from_jsonable(c['f_tree'])
        o = build_raw(t, lib.LANGS[lg]) if c.get('raw_operands') else lib.build(t, lib.LANGS[lg])
        cl = o.clone()
        ids = set(id(x) for x in nodes_of(o))
        bad = lib.read(cl) != t or not (cl == o) or any(id(x) in ids for x in nodes_of(cl))
        return {'violates': bad, 'clone': str(cl), 'original': str(o)}
    elif 'history' in c:
        run_shard(['edits', c['logic']], 'quick', 0, acc)
        hits = [v for v in acc.d['violations'] if v['case'].get('f') == c['f']]
        return {'violates': bool(hits), 'detail': hits[:1]}
    elif kind in ('set-size', 'eq-not-transitive'):
        run_shard(['groups' if kind == 'set-size' else 'triples', c['logic']], 'quick', 0, acc)
    else:
        lg = c['logic']
        tf = spaces.from_jsonable(c['f_tree'])
        tg = spaces.from_jsonable(c['g_tree'])
        check_pair(lg, tf, tg, lib.build(tf, lib.LANGS[lg]), lib.build(tg, lib.LANGS[lg]), acc)
    return {'violates': acc.d['nviol'] > 0, 'detail': acc.d['violations'][:1]}
