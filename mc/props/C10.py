"""C10  Parsers reject text outside their language with a positioned ParserError.

Alphabet: every token string of length<=4 (5 and blocks of 6 in thorough) over a 20-token alphabet,
          fed to all four parsers in one process; character-level deviations of every valid string
          of <=3 tokens; empty / whitespace strings; every printed formula of each logic fed to the
          other parsers.
Oracle  : raise => UnexpectedToken/UnexpectedCharacters with 0<=pos<=len; return => formula of that
          logic (every node), member of the logic, in-order yield == input tokens, and the input
          is derivable in the documented grammar (independent recogniser, mc/refparse.py).
"""
import itertools

from .. import spaces, lib, members, refparse
from ..common import call, chunks
from ..runner import deadline_passed

import pyModelChecking.parser as base_parser

RULE = ('all token strings up to the stated length over {p q true false not ~ and & or | --> A E X F '
        'G U R ( )} x 4 parsers; one-character insertions/replacements/deletions of every accepted '
        'string of <=3 tokens; non-trivial = the string is accepted by at least one and rejected by '
        'at least one parser')
ASSUMPTIONS = ['the documented grammar of a logic is the grammar attribute of its Parser class at the '
               'pinned commit, transcribed by hand into mc/refparse.py',
               'keywords may be read as atoms (the atom regexp matches them); no completeness is '
               'demanded: a derivable string that the LALR parser rejects is not a violation',
               '0 <= pos <= len(input) counts as "within the input"']
BUDGET = {'quick': 600, 'thorough': 3600}
TOKENS = ['p', 'q', 'true', 'false', 'not', '~', 'and', '&', 'or', '|', '-->', 'A', 'E', 'X', 'F', 'G',
          'U', 'R', '(', ')']
LOGICS = ('PL', 'CTL', 'LTL', 'CTLS')
CHARS = ['$', '"', '\n', '\t', '\xe9', '\x00', '1', '_', '-', ' ', '>', ')']
NB6 = 4096

_PARSERS = {}


def parser(logic):
    if logic not in _PARSERS:
        _PARSERS[logic] = lib.LANGS[logic].Parser()
    return _PARSERS[logic]


def scope(tier, seed):
    d = {'token strings': 'all of length<=4 (168421) x 4 parsers' if tier == 'quick' else
         'all of length<=5 (3368421) x 4 parsers + block %d of %d of length 6' % (seed % NB6, NB6),
         'characters': 'insert/replace/delete one character (menu of %d) at every position of every '
                       'string of <=3 tokens accepted by some parser' % len(CHARS),
         'cross feeding': 'printed formulas of size<=2 of each logic to all parsers',
         'chains': 'x op1 y op2 z (and 4-operand chains, nested forms) for all 49 operator pairs, bare / '
                   'parenthesised / under 6 prefixes'}
    if tier == 'quick':
        d['length 5'] = 'block %d of 64' % (seed % 64)
    return d


def plan(tier, seed):
    sh = []
    # strings are grouped by their first two tokens (400 prefixes)
    for a in range(len(TOKENS)):
        sh.append(['tok', a, 4 if tier == 'quick' else 5])
    sh.append(['short'])
    sh.append(['deep'])
    for i in range(32):
        sh.append(['chars', i, 32])
    sh.append(['cross'])
    for i in range(8):
        sh.append(['chains', i, 8])
    if tier == 'quick':
        for a in range(len(TOKENS)):
            sh.append(['tok5block', a, seed % 64])
    else:
        for a in range(len(TOKENS)):
            sh.append(['tok6block', a, seed % NB6])
    return sh


def judge(logic, text, acc, toks=None, want_nontrivial=None):
    """Feed text to logic's parser and apply the oracle.  Returns True if accepted."""
    P = parser(logic)
    case = {'logic': logic, 'text': text if len(text) < 400 else text[:60] + '...(%d chars)' % len(text)}
    exc = None
    try:
        res = ('ok', P(text))
    except Exception as e:   # noqa
        exc = e
        res = ('exc', type(e).__name__, str(e)[:200])
    if res[0] == 'exc':
        if res[1] not in ('UnexpectedToken', 'UnexpectedCharacters'):
            acc.violation('foreign-exception', case, 'UnexpectedToken/UnexpectedCharacters', res[1:])
            return False
        ok_cls = isinstance(exc, (base_parser.UnexpectedToken, base_parser.UnexpectedCharacters))
        pos = getattr(exc, 'pos', None)
        if not ok_cls:
            acc.violation('foreign-exception', case, 'pyModelChecking.parser.ParserError subclass',
                          type(exc).__module__ + '.' + type(exc).__name__)
        elif not isinstance(pos, int) or isinstance(pos, bool) or not (0 <= pos <= len(text)):
            acc.violation('position-outside-input', case, '0..%d' % len(text), repr(pos))
        # a rejected string stays rejected when the caller tries the same parser again
        r2 = call(P, text)
        if not (r2[0] == 'exc' and r2[1] == res[1]):
            try:
                shown = 'returned ' + repr(r2[1])[:60]
            except Exception:   # a very deep formula cannot even be printed
                shown = 'returned an object of type %s' % type(r2[1]).__name__
            acc.violation('accepted-after-rejection', case, res[1], r2[:2] if r2[0] == 'exc' else shown)
        return False
    obj = res[1]
    r = call(lib.read, obj)
    if r[0] != 'ok':
        acc.violation('returned-non-formula', case, 'formula', repr(obj)[:80])
        return True
    t = r[1]
    if not lib.all_same_lang(obj, logic):
        acc.violation('formula-of-another-logic', case, logic, lib.lang_of(obj))
        return True
    if not members.MEMBER[logic](t):
        acc.violation('accepted-non-member', case, 'a %s formula' % logic, spaces.fstr(t))
        return True
    if not members.arity_ok(t):
        acc.violation('operator-with-undocumented-arity', case, 'documented arity', spaces.fstr(t))
        return True
    yld = refparse.tree_yield(t)
    if toks is None or yld != refparse.string_yield(toks):
        # read the text the way the parser must have (keywords are literals without word
        # boundaries, so 'and_' may be 'and' followed by the atom '_')
        toks = refparse.guided_tokens(text, yld)
        if toks is None:
            acc.violation('tree-does-not-match-input', case, text, yld)
            return True
    if not refparse.accepts(logic, toks):
        acc.violation('accepted-string-outside-grammar', case, 'rejection', spaces.fstr(t))
    return True


def run_strings(strings, acc):
    for toks in strings:
        text = ' '.join(toks)
        norm = [refparse.SYN.get(x, x) for x in toks]
        acc_n = 0
        for logic in LOGICS:
            if judge(logic, text, acc, toks=norm):
                acc_n += 1
        acc.ev(4, 1 if 0 < acc_n < 4 else 0)
        if acc_n:
            acc.add('accepted', acc_n)


def run_shard(shard, tier, seed, acc):
    kind = shard[0]
    if kind == 'tok':
        first = TOKENS[shard[1]]
        maxlen = shard[2]
        for L in range(1, maxlen + 1):
            if deadline_passed():
                acc.capped()
                return
            run_strings(((first,) + rest for rest in itertools.product(TOKENS, repeat=L - 1)), acc)
        acc.sample({'text': first + ' ( p U q )', 'parsers': list(LOGICS)})
        return
    if kind in ('tok5block', 'tok6block'):
        first = TOKENS[shard[1]]
        L = 5 if kind == 'tok5block' else 6
        nb = 64 if kind == 'tok5block' else NB6
        block = shard[2]
        gen = ((first,) + rest for i, rest in enumerate(itertools.product(TOKENS, repeat=L - 1))
               if i % nb == block)
        run_strings(gen, acc)
        return
    if kind == 'deep':
        # long / deeply nested inputs: valid ones must parse (to a tree of the right depth), invalid ones
        # must be rejected with a ParserError - never RecursionError
        for depth in (50, 300, 1200):
            cases = [('(p and ' * depth + 'q' + ')' * depth, True), ('not ' * depth + 'p', True),
                     ('(' * depth + 'p' + ')' * depth, True), ('(p and ' * depth + 'q' + ')' * (depth - 1), False),
                     (' and '.join(['p'] * depth), True), ('(p --> ' * depth + 'q' + ')' * depth, True)]
            for text, valid in cases:
                for logic in LOGICS:
                    P = parser(logic)
                    r = call(P, text)
                    acc.ev(1, 1)
                    case = {'logic': logic, 'text': text[:40] + '...(%d chars)' % len(text), 'deep': depth}
                    if valid and r[0] != 'ok':
                        if r[1] not in ('UnexpectedToken', 'UnexpectedCharacters'):
                            acc.violation('foreign-exception', case, 'formula', r[1:])
                    elif not valid and not (r[0] == 'exc' and r[1] in ('UnexpectedToken', 'UnexpectedCharacters')):
                        acc.violation('foreign-exception' if r[0] == 'exc' else 'accepted-string-outside-grammar',
                                      case, 'ParserError', r[1:] if r[0] == 'exc' else 'accepted')
        return
    if kind == 'short':
        for text in ['', ' ', '\n', ' \t ', '\t\n ', '()', '( )', '"', '""', '"p"', '"p q"', 'A', '(',
                     ')', 'p)', '(p', 'p q', 'not', 'A A', '-->', '- ->', '->', 'p -> q', 'p --> --> q',
                     'true false', '$', 'p $', '$ p', '\xe9', 'p\x00', 'p.q', 'p,q', '1', '1p', 'p1',
                     '_', '__', 'p -- > q', '"unterminated', "'p'", 'A(', 'E)', 'p U', 'U p', 'p U U',
                     '((((p))))', '((((p)))', 'not not not p', 'A F G q', 'E G p', 'A (p U (q R p))',
                     '"\\x"', '"c:\\users"', '"\\u12"', '"\\N"', '"a\\"b"', '"\\\\"', '"\\t"', '"\\x41"',
                     '"\\d"', '"it\'s"', 'not "\\x" and p', 'A G ("c:\\users" --> E F "c:\\new")',
                     '"\\U0001"', '"{p}"', '"%s"', '"\\', 'p and "\\x', 'p\u00e9', 'x\u00b2', 'q1\u0663',
                     'A G (caf\u00e9 --> p)', '\u00e9', 'p \u00e9', '\u00e9p', 'p\u00a0q', 'p\u2003and q',
                     '\uff50', 'p\u0301']:
            n = 0
            for logic in LOGICS:
                if judge(logic, text, acc):
                    n += 1
            acc.ev(4, 1 if 0 < n < 4 else 0)
        return
    if kind == 'chars':
        valid = []
        for L in (1, 2, 3):
            for toks in itertools.product(TOKENS, repeat=L):
                norm = [refparse.SYN.get(x, x) for x in toks]
                if any(refparse.accepts(lg, norm) for lg in LOGICS):
                    valid.append(' '.join(toks))
        for text in valid[shard[1]::shard[2]]:
            if deadline_passed():
                acc.capped()
                return
            variants = set()
            for i in range(len(text) + 1):
                for ch in CHARS:
                    variants.add(text[:i] + ch + text[i:])
                    if i < len(text):
                        variants.add(text[:i] + ch + text[i + 1:])
                if i < len(text):
                    variants.add(text[:i] + text[i + 1:])
            for v in sorted(variants):
                n = 0
                for logic in LOGICS:
                    if judge(logic, v, acc):
                        n += 1
                acc.ev(4, 1 if 0 < n < 4 else 0)
        acc.sample({'text': 'p U$ q', 'from': 'p U q', 'deviation': 'insert $'})
        return
    if kind == 'chains':
        # operator chains and mixed binary operators, 5-9 tokens: x op1 y op2 z [op3 w], optionally
        # parenthesised and under a prefix operator - the shapes on which n-ary/binary rules differ
        BIN = ['and', '&', 'or', '|', '-->', 'U', 'R']
        strings = []
        for pre in ('', 'A', 'E', 'not', 'X', 'A G', 'E F'):
            for par in (False, True):
                for o1 in BIN:
                    for o2 in BIN:
                        for atoms in (('p', 'q', 'p'), ('q', 'true', 'p')):
                            body = '%s %s %s %s %s' % (atoms[0], o1, atoms[1], o2, atoms[2])
                            strings.append(((pre + ' ') if pre else '') + ('( ' + body + ' )' if par else body))
                        if o1 == o2:
                            body = 'p %s q %s p %s q' % (o1, o1, o1)
                            strings.append(((pre + ' ') if pre else '') + ('( ' + body + ' )' if par else body))
                            strings.append(((pre + ' ') if pre else '') + '( p %s ( q %s p ) )' % (o1, o2))
                            strings.append(((pre + ' ') if pre else '') + '( ( p %s q ) %s p )' % (o1, o2))
        for text in strings[shard[1]::shard[2]]:
            n = 0
            for logic in LOGICS:
                if judge(logic, text, acc):
                    n += 1
            acc.ev(4, 1 if 0 < n < 4 else 0)
        acc.sample({'text': 'A ( p R q R p )', 'family': 'operator chains'})
        return
    if kind == 'cross':
        texts = set()
        for size in (0, 1, 2):
            for f in spaces.pl_by_size(size):
                texts.add(str(lib.build(f, lib.PL)))
            for f in spaces.path_by_size(size):
                texts.add(str(lib.build(f, lib.LTL)))
                texts.add(str(lib.build(('A', f), lib.LTL)))
            if size <= 1:
                for f in spaces.ctl_by_size(size):
                    o = lib.build(f, lib.CTL)
                    texts.add(str(o))
                    texts.add(str(o.cast_to(lib.CTLS)))
            for f in spaces.ctls_state_by_size(size):
                texts.add(str(lib.build(f, lib.CTLS)))
        for text in sorted(texts):
            n = 0
            for logic in LOGICS:
                if judge(logic, text, acc):
                    n += 1
            acc.ev(4, 1 if 0 < n < 4 else 0)
        return
    raise ValueError(shard)


def replay(art):
    from ..runner import Acc
    c = art['case']
    acc = Acc()
    if c.get('deep') or '...(' in c['text']:
        run_shard(['deep'], 'quick', 0, acc)
        run_shard(['short'], 'quick', 0, acc)
        return {'violates': acc.d['nviol'] > 0, 'detail': acc.d['violations'][:1]}
    judge(c['logic'], c['text'], acc)
    return {'violates': acc.d['nviol'] > 0, 'detail': acc.d['violations'][:1]}
