"""C04  The three checkers agree with each other and obey the semantic laws.

No reference implementation: every oracle is an equation between results of the real checkers.
 1. route agreement (native object, CTL* object, other logic's object, printed text with a shared
    parser and with parser=None) for formulas of the shared fragments;
 2. Boolean laws; 3. A/E duality; 4. fixpoint expansion laws.
"""
import itertools

from .. import spaces, lib, members
from ..common import call, as_state_set, kcase, chunks
from ..runner import deadline_passed

RULE = ('Kripke structures: all 148 labelled K(<=2,{p,q}) and representatives of K(3,{p}); formulas: '
        'ordered pairs (f,g) from a 16-formula pool per logic instantiated in every law, every '
        'formula of the shared fragments of size<=1 (size 2 in blocks) through every documented '
        'route; non-trivial = the two sides of an equation are neither both empty nor both S')
ASSUMPTIONS = ['documented routes: native objects, CTL* objects into CTL/LTL checkers, CTL/LTL objects '
               'into the CTL* checker, text into each parser-backed entry point; an undocumented '
               'route (CTL-typed object into LTL.modelcheck) may raise TypeError but, if it returns, '
               'must agree']
BUDGET = {'quick': 900, 'thorough': 3600}

P, Q, T, F_ = spaces.P, spaces.Q, spaces.T, spaces.F_


def N(a):
    return ('not', a)


def EX(a):
    return ('E', ('X', a))


def AX(a):
    return ('A', ('X', a))


CTL_POOL = [P, Q, T, F_, N(P), ('and', P, Q), ('or', P, Q), ('imp', P, Q), EX(P), AX(Q),
            ('E', ('F', P)), ('A', ('G', Q)), ('E', ('G', P)), ('A', ('F', Q)), ('E', ('U', P, Q)),
            ('A', ('R', P, Q))]
PATH_POOL = [P, Q, T, F_, N(P), ('and', P, Q), ('or', P, Q), ('X', P), ('F', Q), ('G', P),
             ('U', P, Q), ('R', Q, P), ('G', ('F', P)), ('F', ('G', Q)), ('X', N(Q)), ('imp', P, ('F', Q))]

_PARSERS = {}


def parser(lg):
    if lg not in _PARSERS:
        _PARSERS[lg] = lib.LANGS[lg].Parser()
    return _PARSERS[lg]


class MC(object):
    """Memoised calls of the real checkers on one structure."""

    def __init__(self, k, Kl, acc):
        self.k, self.Kl, self.acc = k, Kl, acc
        self.memo = {}

    def __call__(self, checker, f, route='native'):
        key = (checker, f, route)
        if key in self.memo:
            return self.memo[key]
        C = lib.LANGS[checker]
        if route == 'native':
            arg = lib.build(f, C)
        elif route in ('CTL', 'LTL', 'CTLS'):
            arg = lib.build(f, lib.LANGS[route])
        elif route == 'text':
            arg = str(lib.build(f, lib.CTLS))
        elif route == 'text-noparser':
            arg = str(lib.build(f, lib.CTLS))
        if route == 'text':
            r = call(C.modelcheck, self.Kl, arg, parser=parser(checker))
        else:
            r = call(C.modelcheck, self.Kl, arg)
        res = as_state_set(r)
        self.memo[key] = res
        return res


def sets(res):
    return frozenset(res[1]) if res[0] == 'set' else None


def scope(tier, seed):
    return {'laws': 'Boolean (4), duality (6), expansion (9) for CTL and CTL*; LTL conjunction and '
                    'until-expansion; all ordered pairs of a 16-formula pool',
            'routes': 'CTL fragment size<=1 (140+4 formulas) x 6 routes; LTL A g with g of size<=1 x 6 '
                      'routes; CTL-and-LTL fragment x 9 routes; parser=None on a 1/8 slice',
            'structures': 'all 148 labelled K(<=2); K(3,{p}) representatives for the laws and for CTL vs CTL* vs '
                          'LTL route agreement on CTL-shaped formulas'}


def plan(tier, seed):
    sh = []
    for lo, hi in chunks(148, 2):
        sh.append(['laws', lo, hi])
    for lo, hi in chunks(148, 2):
        sh.append(['routes', lo, hi])
    for lo, hi in chunks(504, 12 if tier == 'quick' else 6):
        sh.append(['laws3', lo, hi])
    for lo, hi in chunks(504, 12):
        sh.append(['routes3', lo, hi])
    for lo, hi in chunks(148, 8):
        sh.append(['edited', lo, hi])
    return sh


def eq(acc, k, name, lhs_desc, rhs_desc, a, b, S):
    """a, b: results (('set', [...]) or exc).  Both must be sets and equal."""
    nontriv = 0
    if a[0] == 'set' and b[0] == 'set':
        sa, sb = frozenset(a[1]), frozenset(b[1])
        nontriv = 1 if (0 < len(sa) < len(S) or 0 < len(sb) < len(S)) else 0
    acc.ev(1, nontriv)
    if a[0] != 'set' or b[0] != 'set' or frozenset(a[1]) != frozenset(b[1]):
        acc.violation('law-violated', kcase(k, None, law=name, lhs=lhs_desc, rhs=rhs_desc), a, b)
        return False
    return True


def setop(acc, k, name, desc, got, want_set, S):
    nontriv = 1 if (got[0] == 'set' and 0 < len(got[1]) < len(S)) else 0
    acc.ev(1, nontriv)
    if got[0] != 'set' or frozenset(got[1]) != frozenset(want_set):
        acc.violation('law-violated', kcase(k, None, law=name, lhs=desc, rhs='set expression'),
                      got, sorted(want_set))


def laws_for(mc, checker, pool, acc, k, quantified=True):
    S = frozenset(range(k.n))
    fs = spaces.fstr
    for f in pool:
        a = mc(checker, f)
        if a[0] != 'set':
            acc.violation('exception', kcase(k, f, checker=checker), 'a set', a)
            continue
        setop(acc, k, 'not', '%s: not %s' % (checker, fs(f)), mc(checker, N(f)), S - sets(a), S)
        if quantified:
            # duality and expansion, one-operand forms
            eq(acc, k, 'AX-dual', fs(AX(f)), fs(N(EX(N(f)))), mc(checker, AX(f)), mc(checker, N(EX(N(f)))), S)
            eq(acc, k, 'AF-dual', 'AF f', 'not EG not f', mc(checker, ('A', ('F', f))),
               mc(checker, N(('E', ('G', N(f))))), S)
            eq(acc, k, 'AG-dual', 'AG f', 'not EF not f', mc(checker, ('A', ('G', f))),
               mc(checker, N(('E', ('F', N(f))))), S)
            for qn, nx in (('E', EX), ('A', AX)):
                g_ = (qn, ('G', f))
                eq(acc, k, qn + 'G-expansion', fs(g_), 'f and %sX %sG f' % (qn, qn), mc(checker, g_),
                   mc(checker, ('and', f, nx(g_))), S)
                f_ = (qn, ('F', f))
                eq(acc, k, qn + 'F-expansion', fs(f_), 'f or %sX %sF f' % (qn, qn), mc(checker, f_),
                   mc(checker, ('or', f, nx(f_))), S)
    for f in pool:
        a = mc(checker, f)
        if a[0] != 'set':
            continue
        for g in pool:
            b = mc(checker, g)
            if b[0] != 'set':
                continue
            sa, sb = sets(a), sets(b)
            setop(acc, k, 'and', '%s: %s and %s' % (checker, fs(f), fs(g)), mc(checker, ('and', f, g)), sa & sb, S)
            setop(acc, k, 'or', '%s: %s or %s' % (checker, fs(f), fs(g)), mc(checker, ('or', f, g)), sa | sb, S)
            setop(acc, k, 'imp', '%s: %s --> %s' % (checker, fs(f), fs(g)), mc(checker, ('imp', f, g)),
                  (S - sa) | sb, S)
            if f is pool[0] or g is pool[1]:
                setop(acc, k, 'and3', '3-ary and', mc(checker, ('and', f, g, pool[4])),
                      sa & sb & sets(mc(checker, pool[4])), S)
                setop(acc, k, 'or3', '3-ary or', mc(checker, ('or', pool[5], f, g)),
                      sa | sb | sets(mc(checker, pool[5])), S)
            if not quantified:
                continue
            au = ('A', ('U', f, g))
            eu = ('E', ('U', f, g))
            ar = ('A', ('R', f, g))
            er = ('E', ('R', f, g))
            eq(acc, k, 'AU-dual', fs(au), 'not E[not f R not g]', mc(checker, au),
               mc(checker, N(('E', ('R', N(f), N(g))))), S)
            eq(acc, k, 'AR-dual', fs(ar), 'not E[not f U not g]', mc(checker, ar),
               mc(checker, N(('E', ('U', N(f), N(g))))), S)
            eq(acc, k, 'EU-expansion', fs(eu), 'g or (f and EX E[f U g])', mc(checker, eu),
               mc(checker, ('or', g, ('and', f, EX(eu)))), S)
            eq(acc, k, 'AU-expansion', fs(au), 'g or (f and AX A[f U g])', mc(checker, au),
               mc(checker, ('or', g, ('and', f, AX(au)))), S)
            eq(acc, k, 'ER-expansion', fs(er), 'g and (f or EX E[f R g])', mc(checker, er),
               mc(checker, ('and', g, ('or', f, EX(er)))), S)
            eq(acc, k, 'AR-expansion', fs(ar), 'g and (f or AX A[f R g])', mc(checker, ar),
               mc(checker, ('and', g, ('or', f, AX(ar)))), S)


def ltl_laws(mc, acc, k):
    S = frozenset(range(k.n))
    fs = spaces.fstr
    for g in PATH_POOL:
        a = mc('LTL', ('A', g))
        if a[0] != 'set':
            acc.violation('exception', kcase(k, ('A', g), checker='LTL'), 'a set', a)
            continue
        # A g  ==  not E not g  (through the CTL* checker, which implements E by A)
        eq(acc, k, 'LTL-duality', 'LTL A %s' % fs(g), 'CTLS not E not g', a, mc('CTLS', N(('E', N(g)))), S)
        eq(acc, k, 'LTL-double-negation', 'A g', 'A not not g', a, mc('LTL', ('A', N(N(g)))), S)
        for h in PATH_POOL:
            b = mc('LTL', ('A', h))
            if b[0] != 'set':
                continue
            setop(acc, k, 'LTL-and', 'A(%s and %s)' % (fs(g), fs(h)), mc('LTL', ('A', ('and', g, h))),
                  sets(a) & sets(b), S)
            if g in PATH_POOL[:8] and h in PATH_POOL[:8]:
                u = ('U', g, h)
                eq(acc, k, 'LTL-U-expansion', 'A(g U h)', 'A(h or (g and X(g U h)))', mc('LTL', ('A', u)),
                   mc('LTL', ('A', ('or', h, ('and', g, ('X', u))))), S)
                r = ('R', g, h)
                eq(acc, k, 'LTL-R-expansion', 'A(g R h)', 'A(h and (g or X(g R h)))', mc('LTL', ('A', r)),
                   mc('LTL', ('A', ('and', h, ('or', g, ('X', r))))), S)
                eq(acc, k, 'LTL-R-dual', 'A(g R h)', 'A not(not g U not h)', mc('LTL', ('A', r)),
                   mc('LTL', ('A', N(('U', N(g), N(h))))), S)
        eq(acc, k, 'LTL-G-expansion', 'A G g', 'A(g and X G g)', mc('LTL', ('A', ('G', g))),
           mc('LTL', ('A', ('and', g, ('X', ('G', g))))), S)
        eq(acc, k, 'LTL-F-dual', 'A F g', 'A not G not g', mc('LTL', ('A', ('F', g))),
           mc('LTL', ('A', N(('G', N(g))))), S)


def routes(mc, acc, k, slice_noparser):
    S = frozenset(range(k.n))
    fs = spaces.fstr

    def agree(f, results, optional=()):
        base = None
        base_name = None
        for name, r in results:
            if r[0] != 'set':
                if name in optional and r[0] == 'exc' and r[1] == 'TypeError':
                    acc.add('undocumented_route_typeerror')
                    continue
                acc.violation('route-exception', kcase(k, f, route=name), 'a set', r)
                continue
            if base is None:
                base, base_name = frozenset(r[1]), name
            elif frozenset(r[1]) != base:
                acc.violation('routes-disagree', kcase(k, f, route=name, other=base_name), sorted(base), r)
        acc.ev(len(results), 1 if (base is not None and 0 < len(base) < len(S)) else 0)

    ctl_forms = [f for s in (0, 1) for f in spaces.ctl_by_size(s)] + spaces.nary_ctl()[::9]
    for j, f in enumerate(ctl_forms):
        rs = [('CTL<-CTL obj', mc('CTL', f)), ('CTL<-CTLS obj', mc('CTL', f, 'CTLS')),
              ('CTLS<-CTL obj', mc('CTLS', f, 'CTL')), ('CTLS<-CTLS obj', mc('CTLS', f)),
              ('CTL<-text', mc('CTL', f, 'text')), ('CTLS<-text', mc('CTLS', f, 'text'))]
        opt = ()
        if members.ltl_state(f):
            rs += [('LTL<-LTL obj', mc('LTL', f)), ('LTL<-CTLS obj', mc('LTL', f, 'CTLS')),
                   ('CTLS<-LTL obj', mc('CTLS', f, 'LTL')), ('LTL<-text', mc('LTL', f, 'text')),
                   ('LTL<-CTL obj', mc('LTL', f, 'CTL')), ('CTL<-LTL obj', mc('CTL', f, 'LTL'))]
            opt = ('LTL<-CTL obj', 'CTL<-LTL obj')
        if slice_noparser and j % 8 == 0:
            rs.append(('CTL<-text(parser=None)', mc('CTL', f, 'text-noparser')))
            rs.append(('CTLS<-text(parser=None)', mc('CTLS', f, 'text-noparser')))
        agree(f, rs, opt)
    # atoms whose names are operator words glued to a name: the text route must read them as the
    # same atoms as the object route, whatever was parsed before on the same parser
    def sub(f, m):
        if f[0] == 'ap':
            return ('ap', m.get(f[1], f[1]))
        if f[0] in ('t', 'f'):
            return f
        return (f[0],) + tuple(sub(x, m) for x in f[1:])
    glue_maps = [{'p': 'notp', 'q': 'EFp'}, {'p': 'AGq', 'q': 'pandq'}, {'p': 'Xp', 'q': 'P'},
                 {'p': 'a' * 70 + '1', 'q': 'a' * 70 + '2'}]
    for gm in glue_maps:
        lab = [[gm.get(a, a) for a in l] + (['p'] if i == 0 else []) for i, l in enumerate(k.lab)]
        k2 = spaces.K(k.n, k.succ, lab)
        mc2 = MC(k2, lib.to_kripke(k2), acc)
        for f0 in [P, Q, ('or', EX(P), EX(Q)), ('and', EX(P), N(EX(Q))), ('or', ('A', ('F', P)), ('A', ('F', Q))),
                   ('E', ('U', EX(P), EX(Q)))] + ctl_forms[4:60:3] + [('not', P), ('E', ('F', P)), ('A', ('G', Q)),
                                                                        ('and', P, Q)]:
            f = sub(f0, gm)
            plain = f0
            # first the look-alike texts over the ordinary atoms ('not p' before the atom 'notp'), then
            # the glued one
            for pre in (plain, N(P), ('E', ('F', P)), ('A', ('G', Q))):
                mc2('CTL', pre, 'text')
                mc2('CTLS', pre, 'text')
            rs = [('CTL<-CTL obj', mc2('CTL', f)), ('CTL<-text', mc2('CTL', f, 'text')),
                  ('CTLS<-CTLS obj', mc2('CTLS', f)), ('CTLS<-text', mc2('CTLS', f, 'text'))]
            base = None
            for name, r in rs:
                if r[0] != 'set':
                    acc.violation('route-exception', kcase(k2, f, route=name), 'a set', r)
                elif base is None:
                    base = (name, frozenset(r[1]))
                elif frozenset(r[1]) != base[1]:
                    acc.violation('routes-disagree', kcase(k2, f, route=name, other=base[0]), sorted(base[1]), r)
            acc.ev(len(rs), 1)
    ltl_forms = [('A', g) for s in (0, 1) for g in spaces.path_by_size(s)] + \
                [('A', g) for g in spaces.nary_path((P, Q, T))[::9]]
    for j, f in enumerate(ltl_forms):
        rs = [('LTL<-LTL obj', mc('LTL', f)), ('LTL<-CTLS obj', mc('LTL', f, 'CTLS')),
              ('CTLS<-LTL obj', mc('CTLS', f, 'LTL')), ('CTLS<-CTLS obj', mc('CTLS', f)),
              ('LTL<-text', mc('LTL', f, 'text')), ('CTLS<-text', mc('CTLS', f, 'text'))]
        if slice_noparser and j % 8 == 0:
            rs.append(('LTL<-text(parser=None)', mc('LTL', f, 'text-noparser')))
        agree(f, rs)


EDIT_POOL = [('A', ('G', ('imp', Q, ('E', ('F', P))))), ('imp', Q, ('E', ('F', P))), ('E', ('F', P)), ('A', ('G', N(P))), ('A', ('F', Q)), ('E', ('G', P)), ('E', ('U', P, Q)), EX(P),
             ('A', ('U', P, Q)), ('or', P, ('E', ('X', ('E', ('F', Q)))))]


def edited_routes(k, acc, only_edit=None):
    """query - edit through the public API - query on one live structure: after the edit the checkers must
    still agree with each other on every formula (CTL, CTL* on native and CTL objects, LTL where it applies)."""
    for edit_, k2 in spaces.k_edits(k):
        if only_edit is not None and list(edit_) != list(only_edit):
            continue
        Kl = lib.to_kripke(k)
        # the caller builds each formula object once and keeps using it for every query of the history
        objs = dict((f, (lib.build(f, lib.CTL), lib.build(f, lib.CTLS),
                         lib.build(f, lib.LTL) if members.ltl_state(f) else None)) for f in EDIT_POOL)
        for rnd in (0, 1):
            for f in EDIT_POOL:
                o_ctl, o_ctls, o_ltl = objs[f]
                others = [('CTLS<-CTLS obj', as_state_set(call(lib.CTLS.modelcheck, Kl, o_ctls))),
                          ('CTLS<-CTL obj', as_state_set(call(lib.CTLS.modelcheck, Kl, o_ctl))),
                          ('CTLS<-text', as_state_set(call(lib.CTLS.modelcheck, Kl, str(o_ctls), parser=parser('CTLS'))))]
                a = as_state_set(call(lib.CTL.modelcheck, Kl, o_ctl))
                if o_ltl is not None:
                    others.append(('LTL<-LTL obj', as_state_set(call(lib.LTL.modelcheck, Kl, o_ltl))))
                acc.ev(len(others), len(others) if (a[0] == 'set' and 0 < len(a[1]) < k.n) else 0)
                for name, r in others:
                    if a[0] != 'set' or r[0] != 'set' or frozenset(a[1]) != frozenset(r[1]):
                        acc.violation('routes-disagree-after-edit',
                                      kcase(k, f, route=name, other='CTL<-CTL obj', edit=list(edit_),
                                            when='before the edit' if rnd == 0 else 'after the edit'), a, r)
                        return
            if rnd == 0:
                spaces.apply_edit(Kl, edit_)


def run_shard(shard, tier, seed, acc):
    kind = shard[0]
    if kind == 'edited':
        ks = (list(spaces.kripkes(1)) + list(spaces.kripkes(2)))[shard[1]:shard[2]]
        for k in ks:
            if deadline_passed():
                acc.capped()
                return
            edited_routes(k, acc)
        return
    if kind in ('laws', 'routes'):
        ks = (list(spaces.kripkes(1)) + list(spaces.kripkes(2)))[shard[1]:shard[2]]
        for i, k in enumerate(ks):
            if deadline_passed():
                acc.capped()
                return
            Kl = lib.to_kripke(k)
            snap = lib.snapshot_kripke(Kl)
            mc = MC(k, Kl, acc)
            if kind == 'laws':
                laws_for(mc, 'CTL', CTL_POOL, acc, k)
                laws_for(mc, 'CTLS', CTL_POOL[:10] + [('A', ('F', ('G', P))), ('E', ('G', ('F', Q)))], acc, k)
                ltl_laws(mc, acc, k)
            else:
                routes(mc, acc, k, slice_noparser=((shard[1] + i) % 4 == seed % 4) or tier != 'quick')
            if lib.snapshot_kripke(Kl) != snap:
                acc.violation('structure-modified', kcase(k))
            acc.sample({'k': k.to_json(), 'kind': kind})
        return
    if kind == 'routes3':
        # CTL-shaped formulas over {p} on the 3-state representatives through the CTL and the CTL*
        # checker (object and text): the CTL* checker works on a relabelled clone
        forms = [f for s_ in (0, 1) for f in spaces.ctl_by_size(s_, (P,))] + \
                [f for f in spaces.ctl_by_size(2, (P,))][(seed % 7)::7]
        for ki, k in enumerate(spaces.kripke_reps(3, ('p',))[shard[1]:shard[2]]):
            if tier == 'quick' and (shard[1] + ki) % 2 != seed % 2:
                continue
            if deadline_passed():
                acc.capped()
                return
            Kl = lib.to_kripke(k)
            mc = MC(k, Kl, acc)
            S = frozenset(range(k.n))
            for f in forms:
                a = mc('CTL', f)
                b = mc('CTLS', f)
                c = mc('CTLS', f, 'CTL')
                acc.ev(3, 1 if (a[0] == 'set' and 0 < len(a[1]) < 3) else 0)
                for name, r in (('CTLS<-CTLS obj', b), ('CTLS<-CTL obj', c)):
                    if a[0] != 'set' or r[0] != 'set' or frozenset(a[1]) != frozenset(r[1]):
                        acc.violation('routes-disagree', kcase(k, f, route=name, other='CTL<-CTL obj'), a, r)
                if members.ltl_state(f):
                    d = mc('LTL', f)
                    if d[0] != 'set' or a[0] != 'set' or frozenset(a[1]) != frozenset(d[1]):
                        acc.violation('routes-disagree', kcase(k, f, route='LTL<-LTL obj', other='CTL<-CTL obj'), a, d)
        return
    if kind == 'laws3':
        for k in spaces.kripke_reps(3, ('p',))[shard[1]:shard[2]]:
            if deadline_passed():
                acc.capped()
                return
            Kl = lib.to_kripke(k)
            mc = MC(k, Kl, acc)
            pool = [P, T, N(P), EX(P), AX(P), ('E', ('G', P)), ('A', ('F', P)), ('E', ('U', T, P))]
            laws_for(mc, 'CTL', pool, acc, k)
            if tier != 'quick':
                laws_for(mc, 'CTLS', pool[:5] + [('A', ('F', ('G', P)))], acc, k)
        return
    raise ValueError(shard)


def replay(art):
    from ..runner import Acc
    c = art['case']
    k = spaces.K.from_json(c['k'])
    acc = Acc()
    Kl = lib.to_kripke(k)
    mc = MC(k, Kl, acc)
    if art['kind'] == 'routes-disagree-after-edit':
        edited_routes(k, acc, only_edit=c['edit'])
        return {'violates': acc.d['nviol'] > 0, 'detail': acc.d['violations'][:1]}
    if art['kind'] in ('routes-disagree', 'route-exception'):
        if k.n <= 2:
            routes(mc, acc, k, True)
        else:
            f = spaces.from_jsonable(c['f'])
            a, b, c2 = mc('CTL', f), mc('CTLS', f), mc('CTLS', f, 'CTL')
            bad = not (a[0] == b[0] == c2[0] == 'set' and frozenset(a[1]) == frozenset(b[1]) == frozenset(c2[1]))
            if members.ltl_state(f):
                d = mc('LTL', f)
                bad = bad or d[0] != 'set' or frozenset(d[1]) != frozenset(a[1])
            return {'violates': bad, 'results': [a, b, c2]}
    else:
        if k.n <= 2:
            laws_for(mc, 'CTL', CTL_POOL, acc, k)
            laws_for(mc, 'CTLS', CTL_POOL[:10] + [('A', ('F', ('G', P))), ('E', ('G', ('F', Q)))], acc, k)
            ltl_laws(mc, acc, k)
        else:
            pool = [P, T, N(P), EX(P), AX(P), ('E', ('G', P)), ('A', ('F', P)), ('E', ('U', T, P))]
            laws_for(mc, 'CTL', pool, acc, k)
            laws_for(mc, 'CTLS', pool[:5] + [('A', ('F', ('G', P)))], acc, k)
    return {'violates': acc.d['nviol'] > 0, 'detail': acc.d['violations'][:1]}
