"""C08  Formula objects always belong to their logic; out-of-logic input is rejected.

Alphabet: all operator trees over the union alphabet (documented arities; And/Or of arity 2 and 3)
          with leaves p, true, complete to depth 2, depth 3 in blocks;
          x 4 languages x {construct (3 operand modes), cast_to, modelcheck}.
Oracle  : membership predicates transcribed from the documentation (mc/members.py) and a structural
          reader that looks only at class names and child lists.
"""
import itertools

from .. import spaces, lib, members
from ..common import call, chunks
from ..runner import deadline_passed

from pyModelChecking.graph import DiGraph

RULE = ('all operator trees of depth<=2 over {not,X,F,G,A,E | imp,U,R,and,or | 3-ary and/or with at '
        'most one non-leaf operand}, leaves p/true (depth 3: seed-indexed block); each tree x each '
        'language x construction with native objects / raw str,bool leaves / operands built in '
        'every other language, x cast_to between all ordered language pairs, x the three '
        'modelcheck functions; non-trivial = the tree is a member of some but not all languages')
ASSUMPTIONS = ['membership predicates of mc/members.py are the documented grammars',
               'only documented arities are generated',
               'a well-formed state formula handed to another logic\'s checker may raise TypeError '
               '(undocumented route) but must not return anything but a set']
BUDGET = {'quick': 600, 'thorough': 3600}
LEAVES = (('ap', 'p'), ('t',))
LANGS = ('PL', 'CTL', 'LTL', 'CTLS')
UN = ('not', 'X', 'F', 'G', 'A', 'E')
BIN = ('imp', 'U', 'R', 'and', 'or')
NB3 = 512


def trees(depth, _memo={}):
    if depth in _memo:
        return _memo[depth]
    if depth == 0:
        out = list(LEAVES)
    else:
        sub = trees(depth - 1)
        out = list(sub)
        seen = set(out)

        def add(t):
            if t not in seen:
                seen.add(t)
                out.append(t)
        for a in sub:
            for op in UN:
                add((op, a))
        for a in sub:
            for b in sub:
                for op in BIN:
                    add((op, a, b))
        for x in sub:
            for l1 in LEAVES:
                for l2 in LEAVES:
                    for op in ('and', 'or'):
                        add((op, x, l1, l2))
                        add((op, l1, x, l2))
                        add((op, l1, l2, x))
    _memo[depth] = out
    return out


def trees3_iter():
    """Depth-3 trees (streamed, not deduplicated against depth<=2)."""
    sub = trees(2)
    for a in sub:
        for op in UN:
            yield (op, a)
    small = trees(1)
    for a in sub:
        for b in small:
            for op in BIN:
                yield (op, a, b)
                yield (op, b, a)


def scope(tier, seed):
    return {'depth<=2': '%d trees' % len(trees(2)),
            'depth 3': 'block %s of %d of the streamed depth-3 trees (construct + cast only)'
            % ((seed % NB3) if tier == 'quick' else 'seed..seed+15', NB3)}


def plan(tier, seed):
    n = len(trees(2))
    sh = [['d2', lo, hi] for lo, hi in chunks(n, 256)]
    sh.append(['nonkripke'])
    sh.append(['lazy'])
    blocks = [seed % NB3] if tier == 'quick' else [(seed + j) % NB3 for j in range(16)]
    for b in blocks:
        sh.append(['d3', b])
    return sh


class NotInAlphabet(TypeError):
    """The language module has no class for this operator: nothing to call (harness-side)."""


def has_ops(t, L):
    if members.leaf(t):
        return True
    return hasattr(L, lib.OP2CLASS[t[0]]) and all(has_ops(x, L) for x in t[1:])


def build_native(t, L):
    """Bottom-up with L's classes, operands passed as L objects."""
    if not has_ops(t, L):
        raise NotInAlphabet(t[0])
    return lib.build(t, L)


def build_raw(t, L):
    """Like build_native but leaves are handed over as raw str / bool."""
    op = t[0]
    if op == 'ap':
        return t[1]
    if op == 't':
        return True
    if op == 'f':
        return False
    if not hasattr(L, lib.OP2CLASS[op]):
        raise NotInAlphabet(op)
    return getattr(L, lib.OP2CLASS[op])(*[build_raw(x, L) for x in t[1:]])


def top_ok(obj, Lname):
    return lib.lang_of(obj) == Lname


def expect_construct(t, Lname, res, acc, mode, extra=None):
    member = members.MEMBER[Lname](t)
    case = {'tree': spaces.to_jsonable(t), 'tree_str': spaces.fstr(t), 'lang': Lname, 'mode': mode}
    if extra:
        case.update(extra)
    if res[0] == 'ok':
        obj = res[1]
        if isinstance(obj, (str, bool)):
            return None     # a bare leaf in raw mode: nothing was constructed
        r = call(lib.read, obj)
        if not member:
            acc.violation('non-member-constructed', case, 'TypeError',
                          'object %s' % (r[1:],))
            return None
        if r[0] != 'ok' or r[1] != t:
            acc.violation('constructed-tree-differs', case, spaces.fstr(t), r[1:])
            return None
        if not top_ok(obj, Lname):
            acc.violation('constructed-in-wrong-language', case, Lname, lib.lang_of(obj))
            return None
        if not lib.all_same_lang(obj, Lname):
            acc.violation('constructed-with-nodes-of-another-language', case, Lname, 'mixed classes')
            return None
        return obj
    if res[1] == 'NotInAlphabet':
        if member:
            acc.harness_error('operator missing from %s but tree %r is a member' % (Lname, t))
        return None
    if res[1] != 'TypeError':
        acc.violation('wrong-exception-type', case, 'TypeError', res[1:])
        return None
    if member:
        acc.violation('member-rejected', case, 'object', res[1:])
    return None


def check_tree(t, acc, Kl, do_mc=True):
    mem = dict((L, members.MEMBER[L](t)) for L in LANGS)
    nontriv = 1 if (any(mem.values()) and not all(mem.values())) else 0
    objs = {}
    for Lname in LANGS:
        L = lib.LANGS[Lname]
        acc.ev(1, nontriv)
        o = expect_construct(t, Lname, call(build_native, t, L), acc, 'native')
        if o is not None:
            objs[Lname] = o
        acc.ev(1, nontriv)
        expect_construct(t, Lname, call(build_raw, t, L), acc, 'raw-leaves')
    # operands built in another language, top operator of L
    if not members.leaf(t):
        for Lname in LANGS:
            L = lib.LANGS[Lname]
            for Mname in LANGS:
                if Mname == Lname:
                    continue
                M = lib.LANGS[Mname]
                if not all(members.MEMBER[Mname](x) for x in t[1:]):
                    continue
                rops = call(lambda: [lib.build(x, M) for x in t[1:]])
                if rops[0] != 'ok':
                    continue    # reported by the native pass
                if not hasattr(L, lib.OP2CLASS[t[0]]):
                    continue
                acc.ev(1, nontriv)
                res = call(lambda: getattr(L, lib.OP2CLASS[t[0]])(*rops[1]))
                expect_construct(t, Lname, res, acc, 'foreign-operands', {'operand_lang': Mname})
                if len(t) < 3:
                    continue
                # operand lists that mix the two languages: native operand(s) first and foreign ones after,
                # and the other way round
                for native_first in (True, False):
                    nat = [(i == 0) == native_first for i in range(len(t) - 1)]
                    if not all(members.MEMBER[Lname](x) for x, n_ in zip(t[1:], nat) if n_):
                        continue
                    rmix = call(lambda: [lib.build(x, L if n_ else M) for x, n_ in zip(t[1:], nat)])
                    if rmix[0] != 'ok':
                        continue
                    acc.ev(1, nontriv)
                    res = call(lambda: getattr(L, lib.OP2CLASS[t[0]])(*rmix[1]))
                    expect_construct(t, Lname, res, acc, 'mixed-operands',
                                     {'operand_lang': Mname, 'native_first': native_first})
    # cast_to
    for Mname, obj in objs.items():
        for Lname in LANGS:
            if Lname == Mname:
                continue
            acc.ev(1, nontriv)
            res = call(obj.cast_to, lib.LANGS[Lname])
            case = {'tree': spaces.to_jsonable(t), 'tree_str': spaces.fstr(t), 'from': Mname, 'to': Lname}
            if res[0] == 'ok':
                r = call(lib.read, res[1])
                if not mem[Lname]:
                    acc.violation('cast-accepts-non-member', case, 'TypeError', r[1:])
                elif r[0] != 'ok' or r[1] != t:
                    acc.violation('cast-changes-structure', case, spaces.fstr(t), r[1:])
                elif not lib.all_same_lang(res[1], Lname):
                    acc.violation('cast-result-not-in-target-language', case, Lname, lib.lang_of(res[1]))
                elif res[1] is obj:
                    pass
            elif res[1] != 'TypeError':
                acc.violation('cast-wrong-exception-type', case, 'TypeError', res[1:])
            elif mem[Lname]:
                acc.violation('cast-rejects-member', case, 'object', res[1:])
            r0 = call(lib.read, obj)
            if r0[0] != 'ok' or r0[1] != t:
                acc.violation('cast-modified-source', case, spaces.fstr(t), r0[1:])
    # modelcheck
    if do_mc:
        for Cname in ('CTL', 'LTL', 'CTLS'):
            C = lib.LANGS[Cname]
            st = members.STATE[Cname](t)
            for Mname, obj in objs.items():
                acc.ev(1, nontriv)
                res = call(C.modelcheck, Kl, obj)
                case = {'tree': spaces.to_jsonable(t), 'tree_str': spaces.fstr(t), 'checker': Cname,
                        'object_lang': Mname}
                if res[0] == 'ok':
                    if not st:
                        acc.violation('modelcheck-accepts-non-state-formula', case, 'TypeError',
                                      repr(res[1])[:80])
                    elif not isinstance(res[1], set):
                        acc.violation('modelcheck-returns-non-set', case, 'set', type(res[1]).__name__)
                elif res[1] != 'TypeError':
                    acc.violation('modelcheck-wrong-exception-type', case, 'TypeError or a set', res[1:])


_PARSERS = {}


def shared_parser(name):
    if name not in _PARSERS:
        _PARSERS[name] = lib.LANGS[name].Parser()
    return _PARSERS[name]


def text_modelcheck(t, acc, Kl):
    """The formula as TEXT (CTL* notation) into every modelcheck: a set only for a state formula of the
    called logic; otherwise TypeError (or the parser's own positioned error when the text is not even in
    the logic's grammar)."""
    if not members.ctls(t):
        return
    r = call(lambda: str(lib.build(t, lib.CTLS)))
    if r[0] != 'ok':
        return
    text = r[1]
    for Cname in ('CTL', 'LTL', 'CTLS'):
        C = lib.LANGS[Cname]
        # what this logic's own parser makes of the text decides the expectation (the CTL grammar
        # reads `(A(true) U p)` as A[true U p], CTL* as (A true) U p)
        pr = call(shared_parser(Cname), text)
        if pr[0] == 'ok':
            rt = call(lib.read, pr[1])
            st = rt[0] == 'ok' and members.STATE[Cname](rt[1])
            parsed = spaces.fstr(rt[1]) if rt[0] == 'ok' else None
        else:
            st = False
            parsed = None
        res = call(C.modelcheck, Kl, text, parser=shared_parser(Cname))
        acc.ev(1, 1)
        case = {'tree': spaces.to_jsonable(t), 'tree_str': spaces.fstr(t), 'checker': Cname, 'text': text,
                'parsed_as': parsed}
        if res[0] == 'ok':
            if not st:
                acc.violation('modelcheck-accepts-non-state-formula-text', case, 'TypeError',
                              repr(res[1])[:80])
            elif not isinstance(res[1], set):
                acc.violation('modelcheck-returns-non-set', case, 'set', type(res[1]).__name__)
        elif res[1] not in ('TypeError', 'UnexpectedToken', 'UnexpectedCharacters'):
            acc.violation('modelcheck-wrong-exception-type', case, 'TypeError / ParserError or a set', res[1:])
        elif st:
            acc.violation('modelcheck-rejects-state-formula-text', case, 'a set', res[1:])


def fixed_K():
    from pyModelChecking import Kripke
    return Kripke(S=[0, 1], R=[(0, 1), (1, 1), (1, 0)], L={0: {'p'}, 1: set()})


def run_shard(shard, tier, seed, acc):
    kind = shard[0]
    Kl = fixed_K()
    if kind == 'd2':
        for t in trees(2)[shard[1]:shard[2]]:
            if deadline_passed():
                acc.capped()
                return
            check_tree(t, acc, Kl)
            text_modelcheck(t, acc, Kl)
        acc.sample({'tree': spaces.fstr(trees(2)[shard[1]]), 'languages': list(LANGS),
                    'ops': ['construct x3 modes', 'cast_to x12', 'modelcheck x3']})
        return
    if kind == 'd3':
        for i, t in enumerate(trees3_iter()):
            if i % NB3 != shard[1]:
                continue
            if deadline_passed():
                acc.capped()
                return
            check_tree(t, acc, Kl, do_mc=False)
        return
    if kind == 'lazy':
        # non-members whose offending part sits where constant folding / short-circuiting / lazy
        # validation could skip it: every checker must still raise TypeError
        Pp = ('ap', 'p')
        Tt, Ff = ('t',), ('f',)
        offenders = {'LTL': [('E', ('X', Pp)), ('A', ('G', Pp)), ('E', Pp)],
                     'CTL': [('X', Pp), ('F', ('G', Pp)), ('U', Pp, ('X', Pp))]}
        ctxs = [lambda q: ('imp', Ff, q), lambda q: ('imp', q, Tt), lambda q: ('or', Tt, q), lambda q: ('or', q, Tt),
                lambda q: ('and', Ff, q), lambda q: ('and', q, Ff), lambda q: ('and', Pp, Ff, q),
                lambda q: ('or', Pp, q, Tt), lambda q: ('U', q, Tt), lambda q: ('U', Tt, q), lambda q: ('R', Ff, q),
                lambda q: ('G', ('imp', Ff, q)), lambda q: ('not', ('and', Ff, q)), lambda q: ('F', ('or', Tt, q)),
                lambda q: ('X', ('imp', ('not', Tt), q)),
                # ... and where a simplifier could cancel the offender against itself
                lambda q: ('or', q, ('not', q)), lambda q: ('or', ('not', q), q), lambda q: ('or', Pp, ('not', q), q),
                lambda q: ('and', q, ('not', q)), lambda q: ('imp', q, q), lambda q: ('and', q, q),
                lambda q: ('not', ('or', ('not', q), q)), lambda q: ('G', ('or', q, ('not', q))),
                lambda q: ('U', q, q), lambda q: ('R', ('not', q), q)]
        for q in offenders['LTL']:
            for cx in ctxs:
                t = ('A', cx(q))
                for Mname in ('CTLS',):
                    obj = lib.build(t, lib.CTLS)
                    for F in (None, [set([0])]):
                        kw = {} if F is None else {'F': F}
                        for arg, mode in ((obj, 'object'), (str(obj), 'text')):
                            if mode == 'text':
                                kw2 = dict(kw, parser=lib.CTLS.Parser()) if False else dict(kw)
                                res = call(lib.LTL.modelcheck, Kl, arg, **kw2)
                                okexc = ('TypeError', 'UnexpectedToken', 'UnexpectedCharacters')
                            else:
                                res = call(lib.LTL.modelcheck, Kl, arg, **kw)
                                okexc = ('TypeError',)
                            acc.ev(1, 1)
                            if not (res[0] == 'exc' and res[1] in okexc):
                                acc.violation('modelcheck-accepts-non-member-lazily',
                                              {'tree': spaces.to_jsonable(t), 'tree_str': spaces.fstr(t),
                                               'checker': 'LTL', 'mode': mode, 'F': repr(F)}, 'TypeError', res[:2])
        # the offender next to an atom spelled like its printed form (known finding D17 when the neutral
        # spelling is rejected as it should be)
        for q in offenders['LTL']:
            name = str(lib.build(q, lib.CTLS))
            for shape in (lambda a: ('or', q, a), lambda a: ('and', q, a), lambda a: ('or', a, q),
                          lambda a: ('imp', q, a), lambda a: ('or', Pp, q, a)):
                t = ('A', shape(('ap', name)))
                res = call(lib.LTL.modelcheck, Kl, lib.build(t, lib.CTLS))
                acc.ev(1, 1)
                if res[0] == 'exc' and res[1] == 'TypeError':
                    continue
                case = {'tree': spaces.to_jsonable(t), 'tree_str': spaces.fstr(t), 'checker': 'LTL',
                        'mode': 'object', 'atom_named_like_subformula': name}
                neutral = call(lib.LTL.modelcheck, Kl, lib.build(('A', shape(('ap', 'zz'))), lib.CTLS))
                if res[0] == 'ok' and neutral[0] == 'exc' and neutral[1] == 'TypeError':
                    acc.finding('D17', case, 'TypeError', res[:2])
                else:
                    acc.violation('modelcheck-accepts-non-member-lazily', case, 'TypeError', res[:2])
        # rejected constructions / casts must raise TypeError whatever the atoms are called
        for nm in ('{', '}', '{q}', '{0}', '%s', '%(x)s', '{req,ack}', 'p' * 200, '', ' ', '\\', "it's"):
            ap = lambda L_: L_.AtomicProposition(nm)
            bads = [lambda: lib.CTL.A(ap(lib.CTL)), lambda: lib.CTL.Not(lib.CTL.X(ap(lib.CTL))),
                    lambda: lib.CTLS.A(lib.CTLS.G(lib.CTLS.G(ap(lib.CTLS)))).cast_to(lib.CTL),
                    lambda: lib.LTL.X(lib.LTL.A(ap(lib.LTL))), lambda: lib.PL.Not(lib.CTLS.X(ap(lib.CTLS))),
                    lambda: lib.CTLS.E(lib.CTLS.X(ap(lib.CTLS))).cast_to(lib.LTL),
                    lambda: lib.CTL.E(lib.CTL.U(lib.CTL.X(ap(lib.CTL)), ap(lib.CTL))),
                    lambda: lib.LTL.modelcheck(Kl, lib.CTLS.A(lib.CTLS.E(ap(lib.CTLS)))),
                    lambda: lib.CTL.modelcheck(Kl, lib.CTLS.A(lib.CTLS.F(lib.CTLS.G(ap(lib.CTLS)))))]
            for bi, b in enumerate(bads):
                res = call(b)
                acc.ev(1, 1)
                if not (res[0] == 'exc' and res[1] == 'TypeError'):
                    acc.violation('modelcheck-accepts-non-member-lazily',
                                  {'tree': ['ap', nm], 'tree_str': 'rejected construction #%d with atom %r' % (bi, nm),
                                   'checker': '-', 'mode': 'hostile-atom', 'F': 'None'}, 'TypeError', res[:2])
        for q in offenders['CTL']:
            for cx in ctxs[:11]:
                t = cx(q)
                if members.ctl_state(t) or not members.ctls(t):
                    continue
                obj = lib.build(t, lib.CTLS)
                for F in (None, [set([0])]):
                    kw = {} if F is None else {'F': F}
                    res = call(lib.CTL.modelcheck, Kl, obj, **kw)
                    acc.ev(1, 1)
                    if not (res[0] == 'exc' and res[1] == 'TypeError'):
                        acc.violation('modelcheck-accepts-non-member-lazily',
                                      {'tree': spaces.to_jsonable(t), 'tree_str': spaces.fstr(t), 'checker': 'CTL',
                                       'mode': 'object', 'F': repr(F)}, 'TypeError', res[:2])
        return
    if kind == 'nonkripke':
        forms = [('ap', 'p'), ('A', ('G', ('ap', 'p'))), ('E', ('X', ('ap', 'p'))), ('not', ('ap', 'p')),
                 ('f',), ('t',), ('and', ('f',), ('ap', 'p')), ('E', ('U', ('f',), ('f',))), ('A', ('f',)),
                 ('A', ('G', ('t',))), ('or', ('f',), ('f',), ('f',))]
        bads = [DiGraph(V=[0], E=[(0, 0)]), None, {0: [0]}, 'K', 7, [(0, 0)]]
        for Cname in ('CTL', 'LTL', 'CTLS'):
            C = lib.LANGS[Cname]
            for f in forms:
                for Mname in ('CTL', 'LTL', 'CTLS'):
                    if not members.MEMBER[Mname](f):
                        continue
                    obj = lib.build(f, lib.LANGS[Mname])
                    for txt in (False, True):
                        if txt and (Mname != Cname or not members.STATE[Cname](f)):
                            continue
                        for i, b in enumerate(bads):
                            # text in CTL* notation, which every parser reads
                            arg = str(obj.cast_to(lib.CTLS)) if txt else obj
                            res = call(C.modelcheck, b, arg)
                            acc.ev(1, 1)
                            if not (res[0] == 'exc' and res[1] == 'TypeError'):
                                acc.violation('non-kripke-accepted',
                                              {'checker': Cname, 'formula': spaces.fstr(f), 'text': txt,
                                               'object_lang': Mname, 'bad_index': i, 'bad': repr(b)[:40]},
                                              'TypeError', res[:2])
        return
    raise ValueError(shard)


def replay(art):
    from ..runner import Acc
    c = art['case']
    acc = Acc()
    if 'bad_index' in c:
        run_shard(['nonkripke'], 'quick', 0, acc)
    elif art['kind'].startswith('finding:'):
        run_shard(['lazy'], 'quick', 0, acc)
        fid = sorted(acc.d['findings'])[0] if acc.d['findings'] else None
        return {'violates': acc.d['nviol'] > 0 or fid is not None, 'finding': None if acc.d['nviol'] else fid}
    elif art['kind'] == 'modelcheck-accepts-non-member-lazily':
        run_shard(['lazy'], 'quick', 0, acc)
    else:
        t = spaces.from_jsonable(c['tree'])
        check_tree(t, acc, fixed_K())
        text_modelcheck(t, acc, fixed_K())
    kinds = [v['kind'] for v in acc.d['violations']]
    return {'violates': art['kind'] in kinds or (acc.d['nviol'] > 0 and art['kind'] not in kinds
                                                 and acc.d['nviol'] > 5),
            'kinds': sorted(set(kinds)), 'detail': [v for v in acc.d['violations']
                                                    if v['kind'] == art['kind']][:1]}
