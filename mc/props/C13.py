"""C13  Reachability, reversal, subgraph extraction and clone are exact and non-destructive.

Alphabet: every digraph on n<=4 nodes (isolated nodes included) x every node subset X
          (for get_subgraph also subsets containing a non-node).
Oracle  : Warshall closure / literal set comprehensions; snapshot of G before and after.
"""
import itertools

from .. import spaces
from ..refsem import closure
from ..common import call, chunks
from ..runner import deadline_passed

from pyModelChecking.graph import DiGraph

RULE = ('all digraphs on n<=4 nodes by edge bitmask x all node subsets X; operations '
        'get_reachable_set_from, get_reversed_graph (once and twice), get_subgraph, clone + every '
        'one-step mutation of the clone / of the original; non-trivial = the graph has an edge and '
        'X is a proper non-empty subset')
ASSUMPTIONS = ['reference: Warshall closure and literal comprehensions over the edge tuple',
               'X ranges over subsets of V for reachability (the statement says "node set"); '
               'get_subgraph additionally receives a non-node']
BUDGET = {'quick': 600, 'thorough': 1800}
OUTSIDE = 99


def scope(tier, seed):
    return {'graphs': 'all 2+16+512+65536 digraphs on <=4 nodes', 'subsets': 'all 2^n (+ variants '
            'with the non-node 99 for get_subgraph)', 'insertion orders': 'identity and reverse'
            if tier == 'quick' else 'identity, reverse, all rotations'}


def plan(tier, seed):
    sh = [['small']]
    for lo, hi in chunks(65536, 1024 if tier == 'quick' else 512):
        sh.append(['n4', lo, hi])
    return sh


def snap(G):
    return (sorted(G._next.keys()), sorted((s, d) for s in G._next for d in G._next[s]))


def check_graph(n, edges, order, acc, tier):
    V = list(order)
    G = DiGraph(V=V, E=list(edges))
    before = snap(G)
    ids_before = dict((v, id(G._next[v])) for v in G._next)
    case = {'n': n, 'edges': [list(e) for e in edges], 'order': list(order)}
    eset = set(edges)
    if before != (sorted(range(n)), sorted(eset)):
        acc.violation('constructor', case, (sorted(range(n)), sorted(eset)), before)
        return
    r = closure(n, edges)
    nodes = list(range(n))
    subs = [frozenset(c) for k in range(n + 1) for c in itertools.combinations(nodes, k)]

    def bad(kind, X, exp, got):
        c = dict(case)
        c['X'] = sorted(X) if X is not None else None
        acc.violation(kind, c, exp, got)

    # reversal
    res = call(G.get_reversed_graph)
    acc.ev(1, 1 if edges else 0)
    if res[0] != 'ok':
        bad('reversed-exception', None, None, res[1:])
    else:
        R = res[1]
        exp = (sorted(range(n)), sorted((d, s) for (s, d) in eset))
        if snap(R) != exp:
            bad('reversed', None, exp, snap(R))
        res2 = call(R.get_reversed_graph)
        if res2[0] != 'ok' or snap(res2[1]) != before:
            bad('reversed-twice', None, before, res2[1:] if res2[0] != 'ok' else snap(res2[1]))
        if any(R._next[v] is G._next[w] for v in R._next for w in G._next):
            bad('reversed-aliases-G', None, None, None)
    # clone
    res = call(G.clone)
    acc.ev(1, 1 if edges else 0)
    if res[0] != 'ok':
        bad('clone-exception', None, None, res[1:])
    else:
        C = res[1]
        if snap(C) != before or type(C) is not DiGraph:
            bad('clone', None, before, snap(C))
        if any(C._next[v] is G._next[w] for v in C._next for w in G._next) or C._next is G._next:
            bad('clone-aliases-G', None, None, None)
        # one-step mutator alphabet on the clone, then on G against a second clone
        for (a, b) in [(a, b) for a in range(n + 1) for b in range(n + 1)]:
            if (a, b) in eset:
                continue
            C2 = G.clone()
            call(C2.add_edge, a, b)
            acc.ev(1, 0)
            if snap(G) != before:
                bad('clone-mutation-leaks', None, before, snap(G))
                return
        C3 = G.clone()
        call(C3.add_node, n)
        if snap(G) != before:
            bad('clone-mutation-leaks', None, before, snap(G))
            return
        # mutate the original, the clone must stay
        G2 = DiGraph(V=V, E=list(edges))
        C4 = G2.clone()
        c4 = snap(C4)
        for (a, b) in [(a, b) for a in range(n + 1) for b in range(n + 1) if (a, b) not in eset][:3]:
            call(G2.add_edge, a, b)
        if snap(C4) != c4:
            bad('original-mutation-leaks-into-clone', None, c4, snap(C4))
    for X in subs:
        nontriv = 1 if (edges and 0 < len(X) < n) else 0
        # reachability
        exp = set(X) | set(j for i in X for j in range(n) if r[i][j])
        for Xarg in (set(X), sorted(X), tuple(sorted(X, reverse=True))):
            xa = Xarg.copy() if isinstance(Xarg, set) else list(Xarg)
            res = call(G.get_reachable_set_from, Xarg)
            acc.ev(1, nontriv)
            if res[0] != 'ok':
                bad('reach-exception', X, sorted(exp), res[1:])
            elif not isinstance(res[1], set) or res[1] != exp:
                bad('reach', X, sorted(exp), sorted(res[1], key=repr))
            if (Xarg.copy() if isinstance(Xarg, set) else list(Xarg)) != xa:
                bad('reach-modifies-argument', X, None, None)
        # subgraph
        for extra in ((), (OUTSIDE,)):
            Xs = set(X) | set(extra)
            res = call(G.get_subgraph, Xs)
            acc.ev(1, nontriv)
            exp = (sorted(X), sorted((s, d) for (s, d) in eset if s in X and d in X))
            if res[0] != 'ok':
                bad('subgraph-exception', Xs, exp, res[1:])
            elif snap(res[1]) != exp:
                bad('subgraph', Xs, exp, snap(res[1]))
        res = call(G.get_subgraph, sorted(X))
        exp = (sorted(X), sorted((s, d) for (s, d) in eset if s in X and d in X))
        if res[0] != 'ok' or snap(res[1]) != exp:
            bad('subgraph-list-arg', X, exp, res[1:] if res[0] != 'ok' else snap(res[1]))
    after = snap(G)
    if after != before or dict((v, id(G._next[v])) for v in G._next) != ids_before:
        bad('G-modified', None, before, after)


def orders_for(n, tier):
    ident = list(range(n))
    out = [ident]
    if n > 1:
        out.append(ident[::-1])
    if tier != 'quick':
        for k in range(1, n):
            o = ident[k:] + ident[:k]
            if o not in out:
                out.append(o)
    return out


def run_shard(shard, tier, seed, acc):
    if shard[0] == 'small':
        for n in (0, 1, 2, 3):
            for edges in spaces.digraphs(n):
                for order in itertools.permutations(range(n)):
                    check_graph(n, edges, order, acc, tier)
        acc.sample({'n': 3, 'edges': [[0, 1], [1, 2], [2, 1]], 'X': [0], 'ops':
                    ['reach', 'reversed', 'reversed twice', 'subgraph', 'clone+mutations']})
        return
    for mask in range(shard[1], shard[2]):
        if mask % 64 == 0 and deadline_passed():
            acc.capped()
            return
        edges = spaces.digraph_from_mask(4, mask)
        for order in orders_for(4, tier):
            check_graph(4, edges, order, acc, tier)
    acc.sample({'n': 4, 'edge_mask': shard[1]})


def replay(art):
    from ..runner import Acc
    c = art['case']
    acc = Acc()
    check_graph(c['n'], [tuple(e) for e in c['edges']], c['order'], acc, 'thorough')
    return {'violates': acc.d['nviol'] > 0, 'detail': acc.d['violations'][:2]}
