"""C13  Reachability, reversal, subgraph extraction and clone are exact and non-destructive.

Alphabet: every digraph on n<=4 nodes (isolated nodes included) x every node subset X
          (for get_subgraph also subsets containing a non-node).
Oracle  : Warshall closure / literal set comprehensions; snapshot of G before and after.
"""
import itertools

from .. import spaces, lib
from ..refsem import closure
from ..common import call, chunks
from ..runner import deadline_passed

from pyModelChecking.graph import DiGraph

RULE = ('(a) all digraphs on n<=4 nodes by edge bitmask x all node subsets X; operations '
        'get_reachable_set_from, get_reversed_graph (once and twice), get_subgraph, clone + every '
        'one-step mutation of the clone / of the original; non-trivial = the graph has an edge and '
        'X is a proper non-empty subset; (b) all operation histories up to the stated depth over '
        'mutators and queries, every query answer compared with a set model (states = distinct '
        'model graphs reached, transitions = operations executed); a history is non-trivial if a '
        'query precedes a mutation')
ASSUMPTIONS = ['reference: Warshall closure and literal comprehensions over the edge tuple',
               'X ranges over subsets of V for reachability (the statement says "node set"); '
               'get_subgraph additionally receives a non-node']
BUDGET = {'quick': 600, 'thorough': 1800}
OUTSIDE = 99


def scope(tier, seed):
    return {'histories': 'every operation history of length <=%d over a 24-operation alphabet (9 '
            'add_edge on 3 nodes, 2 add_edge introducing node 3, 4 add_node, reversed, reversed twice, '
            'clone, 2 reach, 2 subgraph, edges) from 11 initial graphs, each replayed on a fresh real '
            'DiGraph next to a (V,E) set model' % (3 if tier == 'quick' else 4),
            'graphs': 'all 2+16+512+65536 digraphs on <=4 nodes', 'subsets': 'all 2^n (+ variants '
            'with the non-node 99 for get_subgraph)', 'insertion orders': 'identity and reverse'
            if tier == 'quick' else 'identity, reverse, all rotations'}


HIST_INIT = [(0, ()), (1, ()), (1, ((0, 0),)), (2, ()), (2, ((0, 1),)), (2, ((0, 1), (1, 0))),
             (2, ((0, 0), (0, 1))), (3, ((0, 1), (1, 2))), (3, ((0, 1), (1, 2), (2, 0))),
             (3, ((0, 0), (1, 1), (2, 2))), (3, ((0, 1), (0, 2), (1, 2), (2, 1)))]


def hist_alphabet():
    ops = []
    for a in range(3):
        for b in range(3):
            ops.append(('add_edge', a, b))
    for a in range(4):
        ops.append(('add_node', a))
    ops.append(('add_edge', 0, 3))
    ops.append(('add_edge', 3, 1))
    ops += [('reversed',), ('reversed2',), ('clone',), ('reach', (0,)), ('reach', (1, 2)),
            ('subgraph', (0, 1)), ('subgraph', (1, 2, 3)), ('edges',)]
    return ops


def plan(tier, seed):
    sh = [['small']]
    for i in range(len(HIST_INIT)):
        for j in range(len(hist_alphabet())):
            sh.append(['hist', i, j, 3 if tier == 'quick' else 4])
    for lo, hi in chunks(65536, 1024 if tier == 'quick' else 512):
        sh.append(['n4', lo, hi])
    return sh


def snap(G):
    return (sorted(lib.next_map(G).keys()), sorted((s, d) for s in lib.next_map(G) for d in lib.next_map(G)[s]))


def check_graph(n, edges, order, acc, tier):
    V = list(order)
    G = DiGraph(V=V, E=list(edges))
    before = snap(G)
    ids_before = lib.adjacency_ids(G)
    case = {'n': n, 'edges': [list(e) for e in edges], 'order': list(order)}
    eset = set(edges)
    if before != (sorted(range(n)), sorted(eset)):
        acc.violation('constructor', case, (sorted(range(n)), sorted(eset)), before)
        return
    r = closure(n, edges)
    nodes = list(range(n))
    subs = [frozenset(c) for k in range(n + 1) for c in itertools.combinations(nodes, k)]

    def bad(kind, X, exp, got):
        c = dict(case)
        c['X'] = sorted(X) if X is not None else None
        acc.violation(kind, c, exp, got)

    # reversal
    res = call(G.get_reversed_graph)
    acc.ev(1, 1 if edges else 0)
    if res[0] != 'ok':
        bad('reversed-exception', None, None, res[1:])
    else:
        R = res[1]
        exp = (sorted(range(n)), sorted((d, s) for (s, d) in eset))
        if snap(R) != exp:
            bad('reversed', None, exp, snap(R))
        res2 = call(R.get_reversed_graph)
        if res2[0] != 'ok' or snap(res2[1]) != before:
            bad('reversed-twice', None, before, res2[1:] if res2[0] != 'ok' else snap(res2[1]))
        if any(lib.next_map(R)[v] is lib.next_map(G)[w] for v in lib.next_map(R) for w in lib.next_map(G)):
            bad('reversed-aliases-G', None, None, None)
    # clone
    res = call(G.clone)
    acc.ev(1, 1 if edges else 0)
    if res[0] != 'ok':
        bad('clone-exception', None, None, res[1:])
    else:
        C = res[1]
        if snap(C) != before or type(C) is not DiGraph:
            bad('clone', None, before, snap(C))
        if any(lib.next_map(C)[v] is lib.next_map(G)[w] for v in lib.next_map(C) for w in lib.next_map(G)) or lib.next_map(C) is lib.next_map(G):
            bad('clone-aliases-G', None, None, None)
        # one-step mutator alphabet on the clone, then on G against a second clone
        for (a, b) in [(a, b) for a in range(n + 1) for b in range(n + 1)]:
            if (a, b) in eset:
                continue
            C2 = G.clone()
            call(C2.add_edge, a, b)
            acc.ev(1, 0)
            if snap(G) != before:
                bad('clone-mutation-leaks', None, before, snap(G))
                return
        C3 = G.clone()
        call(C3.add_node, n)
        if snap(G) != before:
            bad('clone-mutation-leaks', None, before, snap(G))
            return
        # mutate the original, the clone must stay
        G2 = DiGraph(V=V, E=list(edges))
        C4 = G2.clone()
        c4 = snap(C4)
        for (a, b) in [(a, b) for a in range(n + 1) for b in range(n + 1) if (a, b) not in eset][:3]:
            call(G2.add_edge, a, b)
        if snap(C4) != c4:
            bad('original-mutation-leaks-into-clone', None, c4, snap(C4))
    for X in subs:
        nontriv = 1 if (edges and 0 < len(X) < n) else 0
        # reachability
        exp = set(X) | set(j for i in X for j in range(n) if r[i][j])
        dup = sorted(X) + sorted(X)[:1] * 2 + sorted(X)[-1:]
        for Xarg in (set(X), sorted(X), tuple(sorted(X, reverse=True)), dup, tuple(dup[::-1]) * 2):
            xa = Xarg.copy() if isinstance(Xarg, set) else list(Xarg)
            res = call(G.get_reachable_set_from, Xarg)
            acc.ev(1, nontriv)
            if res[0] != 'ok':
                bad('reach-exception', X, sorted(exp), res[1:])
            elif not isinstance(res[1], set) or res[1] != exp:
                bad('reach', X, sorted(exp), sorted(res[1], key=repr))
            if (Xarg.copy() if isinstance(Xarg, set) else list(Xarg)) != xa:
                bad('reach-modifies-argument', X, None, None)
        # subgraph
        for extra in ((), (OUTSIDE,)):
            Xs = set(X) | set(extra)
            res = call(G.get_subgraph, Xs)
            acc.ev(1, nontriv)
            exp = (sorted(X), sorted((s, d) for (s, d) in eset if s in X and d in X))
            if res[0] != 'ok':
                bad('subgraph-exception', Xs, exp, res[1:])
            elif snap(res[1]) != exp:
                bad('subgraph', Xs, exp, snap(res[1]))
        exp = (sorted(X), sorted((s, d) for (s, d) in eset if s in X and d in X))
        for form, arg in (('list', sorted(X)), ('tuple', tuple(sorted(X, reverse=True))),
                          ('frozenset', frozenset(X)), ('dict-keys', dict((x, 1) for x in X).keys())):
            res = call(G.get_subgraph, arg)
            if res[0] != 'ok' or snap(res[1]) != exp:
                bad('subgraph-%s-arg' % form, X, exp, res[1:] if res[0] != 'ok' else snap(res[1]))
        expr = set(X) | set(j for i in X for j in range(n) if r[i][j])
        # re-iterable containers only: the statement speaks of a node SET (the documented parameter is
        # "a container of nodes"); one-shot iterators are outside it, and the unchanged tree itself
        # loses X when get_reachable_set_from is handed a generator
        for form, arg in (('frozenset', frozenset(X)), ('dict-keys', dict((x, 1) for x in X).keys())):
            res = call(G.get_reachable_set_from, arg)
            if res[0] != 'ok' or set(res[1]) != expr:
                bad('reach-%s-arg' % form, X, sorted(expr), res[1:] if res[0] != 'ok' else sorted(res[1]))
    after = snap(G)
    if after != before or lib.adjacency_ids(G) != ids_before:
        bad('G-modified', None, before, after)


class NodeObj(object):
    def __init__(self, i):
        self.i = i

    def __repr__(self):
        return 'NodeObj<%d>' % self.i


NODE_NAMES = {
    'objects': lambda i: NodeObj(i),
    'frozensets': lambda i: frozenset([i]) if i % 2 else frozenset([i, 'x']),
    'mixed': lambda i: (0, 'a', (1, 2), None, 2.5)[i],
    'tuples-of-sets': lambda i: (frozenset([i]), 'n'),
    'strings': lambda i: ('', 'b', 'Aa', 'z_', 'é')[i],
}


def check_named(n, edges, scheme, acc):
    """The same operations on nodes that are only partially ordered / of mixed types."""
    nm = NODE_NAMES[scheme]
    names = [nm(i) for i in range(n)]
    G = DiGraph(V=list(names), E=[(names[a], names[b]) for (a, b) in edges])
    inv = dict((repr(x), i) for i, x in enumerate(names))
    case = {'n': n, 'edges': [list(e) for e in edges], 'order': list(range(n)), 'names': scheme}

    def back(H):
        return (sorted(inv[repr(v)] for v in lib.next_map(H)),
                sorted((inv[repr(s)], inv[repr(d)]) for s in lib.next_map(H) for d in lib.next_map(H)[s]))
    eset = set(edges)
    r = call(G.get_reversed_graph)
    acc.ev(1, 1 if edges else 0)
    exp = (list(range(n)), sorted((d, s) for (s, d) in eset))
    if r[0] != 'ok' or back(r[1]) != exp:
        acc.violation('reversed-named', case, exp, r[1:] if r[0] != 'ok' else back(r[1]))
    else:
        r2 = call(r[1].get_reversed_graph)
        if r2[0] != 'ok' or back(r2[1]) != (list(range(n)), sorted(eset)):
            acc.violation('reversed-twice-named', case, sorted(eset), r2[1:] if r2[0] != 'ok' else back(r2[1]))
    rc = closure(n, edges)
    for k in range(n + 1):
        for X in itertools.combinations(range(n), k):
            exp = set(X) | set(j for i in X for j in range(n) if rc[i][j])
            r = call(G.get_reachable_set_from, [names[i] for i in X])
            acc.ev(1, 1 if edges and 0 < len(X) < n else 0)
            got = None if r[0] != 'ok' else set(inv[repr(v)] for v in r[1])
            if got != exp:
                acc.violation('reach-named', dict(case, X=list(X)), sorted(exp), r[1:] if r[0] != 'ok' else sorted(got))
            r = call(G.get_subgraph, set(names[i] for i in X))
            exps = (sorted(X), sorted((s, d) for (s, d) in eset if s in X and d in X))
            if r[0] != 'ok' or back(r[1]) != exps:
                acc.violation('subgraph-named', dict(case, X=list(X)), exps, r[1:] if r[0] != 'ok' else back(r[1]))
    r = call(G.clone)
    if r[0] != 'ok' or back(r[1]) != (list(range(n)), sorted(eset)):
        acc.violation('clone-named', case, sorted(eset), r[1:] if r[0] != 'ok' else back(r[1]))
    elif not all(any(v is x for x in names) for v in lib.next_map(r[1])) or \
            not all(any(d is x for x in names) for v in lib.next_map(r[1]) for d in lib.next_map(r[1])[v]):
        acc.violation('clone-holds-foreign-node-objects', case, 'the nodes of G', 'copies')


def orders_for(n, tier):
    ident = list(range(n))
    out = [ident]
    if n > 1:
        out.append(ident[::-1])
    if tier != 'quick':
        for k in range(1, n):
            o = ident[k:] + ident[:k]
            if o not in out:
                out.append(o)
    return out


def run_history(init, hist, acc):
    """Replay one operation history on a fresh real DiGraph next to a (V,E) set model."""
    n0, e0 = init
    G = DiGraph(V=list(range(n0)), E=list(e0))
    V = set(range(n0))
    E = set(e0)
    case = {'init': [n0, [list(e) for e in e0]], 'history': [list(o) for o in hist]}

    def bad(kind, step, exp, got):
        c = dict(case)
        c['step'] = step
        acc.violation('history-' + kind, c, exp, got)

    def observe(step, which):
        if which in ('reversed', 'all'):
            r = call(G.get_reversed_graph)
            exp = (sorted(V), sorted((d, s) for (s, d) in E))
            if r[0] != 'ok' or snap(r[1]) != exp:
                bad('reversed', step, exp, r[1:] if r[0] != 'ok' else snap(r[1]))
                return False
        if which in ('reversed2', 'all'):
            r = call(lambda: G.get_reversed_graph().get_reversed_graph())
            exp = (sorted(V), sorted(E))
            if r[0] != 'ok' or snap(r[1]) != exp:
                bad('reversed-twice', step, exp, r[1:] if r[0] != 'ok' else snap(r[1]))
                return False
        if which in ('clone', 'all'):
            r = call(G.clone)
            exp = (sorted(V), sorted(E))
            if r[0] != 'ok' or snap(r[1]) != exp:
                bad('clone', step, exp, r[1:] if r[0] != 'ok' else snap(r[1]))
                return False
        if which in ('edges', 'all'):
            exp = (sorted(V), sorted(E))
            got = (sorted(G.nodes()), sorted(G.edges()))
            if got != exp:
                bad('edges', step, exp, got)
                return False
        return True

    for step, op in enumerate(hist):
        k = op[0]
        if k == 'add_edge':
            a, b = op[1], op[2]
            r = call(G.add_edge, a, b)
            if (a, b) in E:
                if not (r[0] == 'exc' and r[1] == 'RuntimeError'):
                    bad('duplicate-edge-accepted', step, 'RuntimeError', r[:2])
                    return
            else:
                if r[0] != 'ok':
                    bad('add_edge-exception', step, None, r[1:])
                    return
                E.add((a, b))
                V.add(a)
                V.add(b)
        elif k == 'add_node':
            r = call(G.add_node, op[1])
            if op[1] in V:
                if not (r[0] == 'exc' and r[1] == 'RuntimeError'):
                    bad('duplicate-node-accepted', step, 'RuntimeError', r[:2])
                    return
            else:
                if r[0] != 'ok':
                    bad('add_node-exception', step, None, r[1:])
                    return
                V.add(op[1])
        elif k == 'reach':
            X = set(op[1]) & V
            n = max(V) + 1 if V else 0
            rc = closure(n, sorted(E))
            exp = set(X) | set(j for i in X for j in range(n) if rc[i][j])
            r = call(G.get_reachable_set_from, set(X))
            if r[0] != 'ok' or r[1] != exp:
                bad('reach', step, sorted(exp), r[1:] if r[0] != 'ok' else sorted(r[1]))
                return
        elif k == 'subgraph':
            X = set(op[1])
            exp = (sorted(X & V), sorted((s, d) for (s, d) in E if s in X and d in X))
            r = call(G.get_subgraph, set(X))
            if r[0] != 'ok' or snap(r[1]) != exp:
                bad('subgraph', step, exp, r[1:] if r[0] != 'ok' else snap(r[1]))
                return
        else:
            if not observe(step, k):
                return
        acc.add('transitions')
    observe(len(hist), 'all')
    acc.ev(1, 1 if any(o[0] in ('add_edge', 'add_node') for o in hist) and
           any(o[0] not in ('add_edge', 'add_node') for o in hist[:-1]) else 0)
    return (frozenset(V), frozenset(E))


def run_shard(shard, tier, seed, acc):
    if shard[0] == 'hist':
        init = HIST_INIT[shard[1]]
        ops = hist_alphabet()
        first = ops[shard[2]]
        depth = shard[3]
        seen = set()
        for rest in itertools.product(ops, repeat=depth - 1):
            st = run_history(init, (first,) + rest, acc)
            if st is not None:
                seen.add(st)
        # shorter histories starting with `first`
        for d in range(0, depth - 1):
            for rest in itertools.product(ops, repeat=d):
                st = run_history(init, (first,) + rest, acc)
                if st is not None:
                    seen.add(st)
        acc.add('states', len(seen))
        acc.sample({'init': [init[0], [list(e) for e in init[1]]],
                    'history': [list(first), ['reversed'], ['add_edge', 2, 0], ['reversed2']]})
        return
    if shard[0] == 'small':
        for n in (0, 1, 2, 3):
            for edges in spaces.digraphs(n):
                for order in itertools.permutations(range(n)):
                    check_graph(n, edges, order, acc, tier)
                for scheme in sorted(NODE_NAMES):
                    check_named(n, edges, scheme, acc)
        # long simple paths and rings (work-list must not recurse)
        for n in (1500, 4000):
            for shape in ('path', 'ring'):
                E = [(i, i + 1) for i in range(n - 1)] + ([(n - 1, 0)] if shape == 'ring' else [])
                G = DiGraph(V=range(n), E=E)
                r = call(G.get_reachable_set_from, [0])
                acc.ev(1, 1)
                if r[0] != 'ok' or r[1] != set(range(n)):
                    acc.violation('reach-long-' + shape, {'n': n, 'edges': shape, 'order': [], 'long': True}, n,
                                  r[1:] if r[0] != 'ok' else len(r[1]))
                r = call(lambda: G.get_reversed_graph().get_reachable_set_from([n - 1]))
                if r[0] != 'ok' or r[1] != set(range(n)):
                    acc.violation('reach-long-reversed-' + shape, {'n': n, 'edges': shape, 'order': [], 'long': True},
                                  n, r[1:] if r[0] != 'ok' else len(r[1]))
        acc.sample({'n': 3, 'edges': [[0, 1], [1, 2], [2, 1]], 'X': [0], 'ops':
                    ['reach', 'reversed', 'reversed twice', 'subgraph', 'clone+mutations']})
        return
    for mask in range(shard[1], shard[2]):
        if mask % 64 == 0 and deadline_passed():
            acc.capped()
            return
        edges = spaces.digraph_from_mask(4, mask)
        for order in orders_for(4, tier):
            check_graph(4, edges, order, acc, tier)
    acc.sample({'n': 4, 'edge_mask': shard[1]})


def replay(art):
    from ..runner import Acc
    c = art['case']
    acc = Acc()
    if c.get('long'):
        run_shard(['small'], 'quick', 0, acc)
        return {'violates': any(v['kind'].startswith('reach-long') for v in acc.d['violations'])}
    if c.get('names'):
        check_named(c['n'], [tuple(e) for e in c['edges']], c['names'], acc)
        return {'violates': acc.d['nviol'] > 0, 'detail': acc.d['violations'][:1]}
    if 'history' in c:
        run_history((c['init'][0], tuple(tuple(e) for e in c['init'][1])),
                    tuple(tuple(tuple(x) if isinstance(x, list) else x for x in o) for o in c['history']), acc)
        return {'violates': acc.d['nviol'] > 0, 'detail': acc.d['violations'][:1]}
    check_graph(c['n'], [tuple(e) for e in c['edges']], c['order'], acc, 'thorough')
    return {'violates': acc.d['nviol'] > 0, 'detail': acc.d['violations'][:2]}
