"""C03  CTL* model checking is exact for arbitrary quantifier / path-operator nesting.

Oracle: CTLS.modelcheck(K, f) == Sem(K).sat(f) (innermost-first product semantics of mc/refsem.py);
top-level quantified formulas are certified by witness lassos evaluated literally.
"""
import itertools

from .. import spaces, lib
from ..refsem import Sem
from ..common import call, as_state_set, kcase, certify_quantified, sweep_negative, chunks
from ..runner import deadline_passed

from pyModelChecking import Kripke

RULE = ('CTL* STATE formulas enumerated by node count (quantifiers count) without repetition over the '
        'stated leaves x Kripke structures K(n,{p,q}); shapes force every branch of the quantifier '
        'elimination: CTL-shaped quantifiers, LTL-only A, LTL-only E, quantifiers under temporal '
        'operators, Boolean roots, label names colliding with the fresh atoms; non-trivial = formula '
        'has a path quantifier and the reference answer is neither empty nor S')
ASSUMPTIONS = ['reference: mc/refsem.py Sem (product with brute-force guesses, innermost first)',
               'formulas are handed over as CTLS objects']
BUDGET = {'quick': 900, 'thorough': 5400}
NB3 = 8


NAME_SCHEMES = {
    'frozensets': lambda i: frozenset('xyz'[i]),            # pairwise incomparable under <
    'mixed': lambda i: (0, 'mid', ('end', 1))[i],
    'strings': lambda i: ('s', '', 'S ')[i],
    'tuples': lambda i: (i, None),
}
ATOM_MAPS = [{'p': 'door open', 'q': 'door'}, {'p': 'S', 'q': 'L'}, {'p': 'True', 'q': 'p q'}, {'p': 'q', 'q': 'p'}]


def rename_atoms(f, m):
    if f[0] == 'ap':
        return ('ap', m.get(f[1], f[1]))
    if f[0] in ('t', 'f'):
        return f
    return (f[0],) + tuple(rename_atoms(x, m) for x in f[1:])


def named_instances(k):
    """(library structure, names, atom map) for every naming scheme x atom map; with the blank-containing
    atom map every state that has q additionally carries the label 'open', so that the label sets
    {'door','open'} and {'door open'} both occur."""
    out = []
    for scheme in sorted(NAME_SCHEMES):
        names = [NAME_SCHEMES[scheme](i) for i in range(k.n)]
        for m in ATOM_MAPS:
            L = {}
            for i in range(k.n):
                labs = [m.get(a, a) for a in k.lab[i]]
                if m['p'] == 'door open' and 'q' in k.lab[i]:
                    labs.append('open')
                L[names[i]] = labs
            from pyModelChecking import Kripke
            Kl = Kripke(S=names, R=[(names[i], names[j]) for i in range(k.n) for j in k.succ[i]], L=L)
            out.append((Kl, names, m, scheme))
    return out


def scope(tier, seed):
    return {'A': 'all 148 labelled K(<=2) x all 1772 state formulas with <=2 nodes over {p,q,true,false}',
            'B': '82 representatives of K(<=2) x the 6510 state formulas with 3 nodes over {p,q}: '
                 + ('block %d of %d' % (seed % NB3, NB3) if tier == 'quick' else 'all'),
            'C': '504 representatives of K(3,{p}) x all 71 state formulas with <=2 nodes over {p}'
                 + ('' if tier == 'quick' else ' and all 908 with 3 nodes'),
            'D': 'label names colliding with the fresh atoms / fair labels, nested-quantifier shapes',
            'N': 'A/E over the 3-ary and/or path family on the 82 representatives',
            'NEG': 'A/E over %d negation-rich path formulas on the 82 representatives' % len(spaces.negated_path()),
            'EDIT': 'query / edit the same object / query histories on the 82 representatives',
            'NAMES': 'representatives x 4 state-naming schemes x 4 atom renamings (blanks, capitals, constant '
                     'look-alikes) x a third of the state formulas with <=2 nodes',
            'SHARED': 'structures whose equally labelled states share one label-set object (installed with '
                      'replace_labelling_function) x quantified formulas with <=2 nodes and special shapes',
            'MED': '40 structures with 5-7 states x quantified formulas with <=2 nodes (half), the 26 special '
                   'shapes, A/E over depth-3 towers',
            'S': 'selected formulas with 4-5 nodes (3 temporal operators per quantifier, nesting 2)'}


def plan(tier, seed):
    sh = []
    for lo, hi in chunks(148, 2):
        sh.append(['A', lo, hi])
    for i in range(82):
        if tier == 'quick':
            sh.append(['B', i, [seed % NB3]])
        else:
            for b in range(NB3):
                sh.append(['B', i, [b]])
    for lo, hi in chunks(504, 8):
        sh.append(['C', lo, hi])
    sh.append(['D'])
    for lo, hi in chunks(82, 4):
        sh.append(['N', lo, hi])
    for lo, hi in chunks(82, 4):
        sh.append(['S', lo, hi])
    for lo, hi in chunks(82, 2):
        sh.append(['NEG', lo, hi])
    for lo, hi in chunks(82, 2):
        sh.append(['EDIT', lo, hi])
    for lo, hi in chunks(82, 4):
        sh.append(['S0', lo, hi])
    for i in range(40):
        sh.append(['MED', i])
    for lo, hi in chunks(82, 4):
        sh.append(['NAMES', lo, hi])
    for lo, hi in chunks(82, 4):
        sh.append(['SHARED', lo, hi])
    sh.append(['FRESHATOM'])
    for lo, hi in chunks(82, 4):
        sh.append(['REUSE', lo, hi])
    for lo, hi in chunks(82, 8):
        sh.append(['LONGATOMS', lo, hi])
    return sh


def nquant(f):
    if f[0] in ('ap', 't', 'f'):
        return 0
    return (1 if f[0] in ('A', 'E') else 0) + sum(nquant(x) for x in f[1:])


LONG = {'p': 'request_' + 'x' * 64 + '_granted', 'q': 'request_' + 'x' * 64 + '_pending'}


def has_quant(f):
    if f[0] in ('A', 'E'):
        return True
    if f[0] in ('ap', 't', 'f'):
        return False
    return any(has_quant(x) for x in f[1:])


def check_one(k, Kl, f, acc, audit=False, first=False, names=None):
    sem = Sem(k)
    ref = sem.sat(f)
    res = as_state_set(call(lib.CTLS.modelcheck, Kl, lib.build(f, lib.CTLS)))
    if names is not None and res[0] == 'set':
        inv = dict((nm, i) for i, nm in enumerate(names))
        try:
            res = ('set', sorted(inv[x] for x in res[1]))
        except Exception:
            pass
    nontriv = 1 if (has_quant(f) and 0 < len(ref) < k.n) else 0
    acc.ev(1, nontriv)
    if first:
        res2 = as_state_set(call(lib.CTLS.modelcheck, Kl, lib.build(f, lib.CTLS)))
        if names is None and res2 != res:
            acc.violation('nondeterministic', kcase(k, f), res, res2)
    if res != ('set', sorted(ref)):
        acc.violation('wrong-answer', kcase(k, f, names=None if names is None else [repr(x) for x in names]),
                      sorted(ref), res)
    if audit:
        certify_quantified(sem, f, None, acc)
        if k.n <= 2:
            sweep_negative(sem, f, acc, k.n, k.n + 1)
    acc.add('states', sem.states)
    acc.add('transitions', sem.transitions)


def special_forms():
    P, Q = spaces.P, spaces.Q
    NP = ('not', P)
    fs = [
        ('A', ('G', ('imp', P, ('A', ('F', Q))))), ('E', ('G', ('F', P))), ('A', ('F', ('G', P))),
        ('E', ('and', ('G', ('F', P)), ('G', ('F', Q)))), ('A', ('imp', ('G', ('F', P)), ('G', ('F', Q)))),
        ('E', ('U', ('X', P), ('G', Q))), ('A', ('R', ('F', P), ('X', Q))), ('E', ('X', ('X', ('X', P)))),
        ('A', ('U', P, ('U', Q, NP))), ('E', ('G', ('X', P))), ('E', ('F', ('F', P))),
        ('A', ('G', ('E', ('F', ('A', ('G', P)))))), ('E', ('F', ('A', ('G', ('E', ('X', P)))))),
        ('A', ('F', ('E', ('G', ('F', P))))), ('E', ('G', ('A', ('F', ('G', P))))),
        ('and', ('A', ('G', ('F', P))), ('E', ('F', ('G', Q))), ('not', ('E', ('X', ('X', P))))),
        ('E', ('U', ('A', ('G', ('F', P))), ('E', ('X', ('G', Q))))), ('A', ('or', ('G', P), ('F', ('A', ('X', Q))))),
        ('not', ('E', ('not', ('F', ('G', P))))), ('E', ('not', ('not', ('X', P)))), ('A', ('not', ('not', ('F', P)))),
        ('E', ('not', ('not', ('F', ('G', NP))))), ('A', ('X', ('and', ('E', ('X', P)), ('A', ('X', Q)), ('E', ('F', NP))))),
        ('E', ('R', ('A', ('F', P)), ('or', Q, ('E', ('X', P)), ('A', ('G', Q))))),
        ('A', ('G', ('or', NP, ('X', ('F', Q))))), ('E', ('F', ('and', P, ('X', ('G', NP))))),
    ]
    return fs


def run_shard(shard, tier, seed, acc):
    kind = shard[0]
    if kind == 'A':
        forms = [f for s in (0, 1, 2) for f in spaces.ctls_state_by_size(s)]
        ks = (list(spaces.kripkes(1)) + list(spaces.kripkes(2)))[shard[1]:shard[2]]
        for k in ks:
            Kl = lib.to_kripke(k)
            snap = lib.snapshot_kripke(Kl)
            for j, f in enumerate(forms):
                if j % 128 == 0 and deadline_passed():
                    acc.capped()
                    return
                check_one(k, Kl, f, acc, audit=(j % 2 == 0), first=(j < 12))
            if lib.snapshot_kripke(Kl) != snap:
                acc.violation('structure-modified', kcase(k))
            acc.sample({'k': k.to_json(), 'formulas': 'all CTL* state formulas with <=2 nodes'})
        return
    if kind == 'B':
        k = (spaces.kripke_reps(1) + spaces.kripke_reps(2))[shard[1]]
        Kl = lib.to_kripke(k)
        blocks = set(shard[2])
        for j, f in enumerate(spaces.ctls_state_by_size(3, spaces.LEAVES2)):
            if j % NB3 not in blocks:
                continue
            if j % 64 == 0 and deadline_passed():
                acc.capped()
                return
            check_one(k, Kl, f, acc, audit=(j % 8 == 0))
        acc.sample({'k': k.to_json(), 'formulas': '3-node state formulas over {p,q}',
                    'example': spaces.fstr(spaces.ctls_state_by_size(3, spaces.LEAVES2)[4000])})
        return
    if kind == 'C':
        leaves = (spaces.P,)
        forms = [f for s in (0, 1, 2) for f in spaces.ctls_state_by_size(s, leaves)]
        if tier != 'quick':
            forms = forms + spaces.ctls_state_by_size(3, leaves)
        for k in spaces.kripke_reps(3, ('p',))[shard[1]:shard[2]]:
            Kl = lib.to_kripke(k)
            for j, f in enumerate(forms):
                if j % 64 == 0 and deadline_passed():
                    acc.capped()
                    return
                check_one(k, Kl, f, acc, audit=(j % 4 == 0))
        return
    if kind == 'D':
        # labels that look like the fresh atoms the checker invents; they are not atoms of the
        # formulas, so the expected answer is the reference answer on the plain labelling
        P = spaces.P
        junk = ['[A(G(p))]', '[[A(G(p))](0)]', '[E(X(p))]', '[[E(X(p))](0)]', '[A(F(p))]', 'fair', 'fair0',
                '[A((p U q))]', '[E(G(p))]', '[A(X(p))]', '[A(not E(X(p)))]']
        forms = [('E', ('X', ('A', ('G', P)))), ('A', ('G', ('E', ('X', P)))), ('E', ('F', ('A', ('F', P)))),
                 ('not', ('A', ('G', P))), ('A', ('X', ('E', ('G', P)))), ('E', ('U', ('A', ('X', P)), ('E', ('G', P)))),
                 ('A', ('G', ('F', ('E', ('X', P))))), ('E', ('G', ('F', ('A', ('G', P))))),
                 ('and', ('A', ('G', P)), ('E', ('X', P))), ('A', ('U', P, spaces.Q))]
        ks = spaces.kripke_reps(1) + spaces.kripke_reps(2)
        for k in ks:
            for placement in range(1 << k.n):
                lab = dict((i, set(k.lab[i]) | (set(junk) if (placement >> i) & 1 else set()))
                           for i in range(k.n))
                Kl = Kripke(S=list(range(k.n)), R=[(i, j) for i in range(k.n) for j in k.succ[i]], L=lab)
                for f in forms:
                    check_one(k, Kl, f, acc)
        acc.sample({'labels': junk[:3], 'formula': 'E(X(A(G(p))))'})
        return
    if kind == 'N':
        fam = spaces.nary_path((spaces.P, spaces.Q, spaces.T))
        forms = [(q, g) for g in fam[::2] for q in 'AE']
        # Boolean roots with a quantified operand in every position of a 3-ary and/or
        Pq, Qq = spaces.P, spaces.Q
        quant = [('E', ('G', Qq)), ('A', ('F', Pq)), ('E', ('X', ('A', ('G', Pq)))), ('A', ('F', ('G', Qq)))]
        for op in ('and', 'or'):
            for x in quant:
                forms += [(op, x, Pq, Qq), (op, Pq, x, Qq), (op, Pq, Qq, x), ('not', (op, Pq, x, ('not', Qq))),
                          (op, x, Pq, quant[0])]
        for k in (spaces.kripke_reps(1) + spaces.kripke_reps(2))[shard[1]:shard[2]]:
            Kl = lib.to_kripke(k)
            snap = lib.snapshot_kripke(Kl)
            for j, f in enumerate(forms):
                if j % 64 == 0 and deadline_passed():
                    acc.capped()
                    return
                check_one(k, Kl, f, acc, audit=(j % 8 == 0))
                if (j % 16 == 15 or j == len(forms) - 1) and lib.snapshot_kripke(Kl) != snap:
                    acc.violation('structure-modified', kcase(k, f))
                    Kl = lib.to_kripke(k)
        return
    if kind == 'FRESHATOM':
        # atoms of the formula that are spelled like the fresh names the checker invents for its
        # quantified subformulas and label no state: the reference reads them as false everywhere.
        # Known finding D15: the fresh-name generator only avoids LABELS of K, so such an atom is captured.
        Pq, Qq = spaces.P, spaces.Q
        subs = [('E', ('X', Pq)), ('A', ('G', Qq)), ('E', ('U', Pq, Qq)), ('A', ('F', ('G', Pq)))]
        for k in spaces.kripke_reps(1) + spaces.kripke_reps(2):
            Kl = lib.to_kripke(k)
            sem = Sem(k)
            for sub in subs:
                name = '[%s]' % str(lib.build(sub, lib.CTLS))
                for shape in (lambda q, a: ('and', q, a), lambda q, a: ('or', ('not', q), a),
                              lambda q, a: ('E', ('X', ('and', q, a))), lambda q, a: ('and', a, q)):
                    f = shape(sub, ('ap', name))
                    captured = shape(sub, sub)
                    ref = sem.sat(f)
                    r = call(lib.CTLS.modelcheck, Kl, lib.build(f, lib.CTLS))
                    acc.ev(1, 1)
                    got = frozenset(r[1]) if r[0] == 'ok' and isinstance(r[1], set) else None
                    case = kcase(k, f, fresh_name=name)
                    if got == ref:
                        continue
                    if got is not None and got == sem.sat(captured):
                        acc.finding('D15', case, sorted(ref), sorted(got))
                    else:
                        acc.violation('wrong-answer', case, sorted(ref), r[1:] if r[0] != 'ok' else sorted(got))
        return
    if kind == 'REUSE':
        # one formula object handed to the checker again and again (same structure twice, then another
        # structure, then the first again): every answer must be exact and the object must stay as built
        forms = [f for s_ in (1, 2) for f in spaces.ctls_state_by_size(s_, spaces.LEAVES2)
                 if nquant(f) >= 2 or (has_quant(f) and f[0] not in ('A', 'E'))][(seed % 2)::2]
        forms += special_forms()
        allk = spaces.kripke_reps(2) + spaces.kripke_reps(3, ('p',))[::7]
        ks = allk[shard[1] * 2:shard[2] * 2]
        for ki, k in enumerate(ks):
            k2 = allk[(shard[1] * 2 + ki + 5) % len(allk)]
            Ka, Kb = lib.to_kripke(k), lib.to_kripke(k2)
            refs = {id(Ka): (k, Sem(k)), id(Kb): (k2, Sem(k2))}
            for j, f in enumerate(forms):
                if j % 32 == 0 and deadline_passed():
                    acc.capped()
                    return
                obj = lib.build(f, lib.CTLS)
                for step, Kl in enumerate((Ka, Ka, Kb, Ka)):
                    kk, sem = refs[id(Kl)]
                    ref = sem.sat(f)
                    res = as_state_set(call(lib.CTLS.modelcheck, Kl, obj))
                    acc.ev(1, 1 if 0 < len(ref) < kk.n else 0)
                    if res != ('set', sorted(ref)):
                        acc.violation('wrong-answer-on-reused-formula-object',
                                      kcase(kk, f, call_number=step + 1, first_structure=k.to_json(),
                                            second_structure=k2.to_json()), sorted(ref), res)
                        break
                    rr = call(lib.read, obj)
                    if rr[0] != 'ok' or rr[1] != f:
                        acc.violation('formula-object-modified', kcase(kk, f, call_number=step + 1),
                                      spaces.fstr(f), rr[1:] if rr[0] != 'ok' else spaces.fstr(rr[1]))
                        break
        return
    if kind == 'LONGATOMS':
        # atoms with long descriptive names that agree in their first 70 characters: the scratch names of
        # sibling quantified subformulas then share a long prefix
        forms = [f for s_ in (1, 2) for f in spaces.ctls_state_by_size(s_, spaces.LEAVES2) if nquant(f) >= 2]
        forms += [('and', ('not', ('E', ('X', P_))), ('E', ('X', Q_))) for P_, Q_ in ((spaces.P, spaces.Q), (spaces.Q, spaces.P))]
        forms += [('or', ('A', ('G', spaces.P)), ('A', ('G', spaces.Q)), ('E', ('F', ('not', spaces.Q)))),
                  ('A', ('G', ('imp', ('E', ('X', spaces.P)), ('E', ('X', spaces.Q)))))]
        for k in (spaces.kripke_reps(2))[shard[1]:shard[2]]:
            sem = Sem(k)
            Kl = Kripke(S=list(range(k.n)), R=[(i, j) for i in range(k.n) for j in k.succ[i]],
                        L=dict((i, set(LONG[a] for a in k.lab[i])) for i in range(k.n)))
            for j, f in enumerate(forms):
                if j % 32 == 0 and deadline_passed():
                    acc.capped()
                    return
                ref = sem.sat(f)
                res = as_state_set(call(lib.CTLS.modelcheck, Kl, lib.build(rename_atoms(f, LONG), lib.CTLS)))
                acc.ev(1, 1 if 0 < len(ref) < k.n else 0)
                if res != ('set', sorted(ref)):
                    acc.violation('wrong-answer', kcase(k, f, long_atom_names=True), sorted(ref), res)
        return
    if kind == 'SHARED':
        # states with equal labels share ONE set object (installed with replace_labelling_function); also
        # frozensets are not used here because the checker adds fresh atoms to the label sets of its clone
        forms = [f for s_ in (1, 2) for f in spaces.ctls_state_by_size(s_, spaces.LEAVES2) if has_quant(f)][(seed % 2)::2]
        forms += special_forms()[::3]
        ks = [k for k in (spaces.kripke_reps(2) + spaces.kripke_reps(3, ('p',)))
              if len(set(k.lab)) < k.n][shard[1] * 3:shard[2] * 3]
        for k in ks:
            pool = {}
            Kl = Kripke(S=list(range(k.n)), R=[(i, j) for i in range(k.n) for j in k.succ[i]])
            Kl.replace_labelling_function(dict((i, pool.setdefault(k.lab[i], set(k.lab[i]))) for i in range(k.n)))
            snap = lib.snapshot_kripke(Kl)
            for j, f in enumerate(forms):
                if j % 32 == 0 and deadline_passed():
                    acc.capped()
                    return
                check_one(k, Kl, f, acc)
            if lib.snapshot_kripke(Kl) != snap:
                acc.violation('structure-modified', kcase(k))
        return
    if kind == 'NAMES':
        forms = [f for s_ in (0, 1, 2) for f in spaces.ctls_state_by_size(s_, spaces.LEAVES2)][(seed % 3)::3]
        for k in (spaces.kripke_reps(1) + spaces.kripke_reps(2))[shard[1]:shard[2]] + spaces.kripke_reps(3)[shard[1] * 11::450]:
            sem = Sem(k)
            for Kl, names, m, scheme in named_instances(k):
                inv = dict((repr(x), i) for i, x in enumerate(names))
                for f in forms:
                    ref = sem.sat(f)
                    r = call(lib.CTLS.modelcheck, Kl, lib.build(rename_atoms(f, m), lib.CTLS))
                    acc.ev(1, 1 if 0 < len(ref) < k.n else 0)
                    got = None
                    if r[0] == 'ok':
                        try:
                            got = frozenset(inv[repr(x)] for x in r[1])
                        except Exception:
                            got = None
                    if got != ref:
                        acc.violation('wrong-answer', kcase(k, f, names=scheme, atom_map=m), sorted(ref),
                                      r[1:] if r[0] != 'ok' else sorted(map(repr, r[1])))
        return
    if kind == 'MED':
        k = spaces.medium_kripkes(seed)[shard[1]]
        Kl = lib.to_kripke(k)
        forms = [f for s_ in (1, 2) for f in spaces.ctls_state_by_size(s_, spaces.LEAVES2) if has_quant(f)][(seed % 2)::2]
        forms += special_forms() + [(q, g) for g in spaces.path_towers(3)[(seed % 4)::4] for q in 'AE']
        for j, f in enumerate(forms):
            if j % 32 == 0 and deadline_passed():
                acc.capped()
                return
            check_one(k, Kl, f, acc)
        acc.sample({'k': k.to_json(), 'formulas': 'quantified state formulas <=2 nodes, special shapes, towers'})
        return
    if kind == 'S0':
        forms = [f for s_ in (0, 1, 2) for f in spaces.ctls_state_by_size(s_, spaces.LEAVES2)]
        for k in ((spaces.kripke_reps(1) + spaces.kripke_reps(2))[shard[1]:shard[2]] + spaces.kripke_reps(3, ('p',))[shard[1]::82]):
            for S0 in ([0], [k.n - 1], list(range(k.n))):
                Kl = lib.to_kripke(k, S0=S0)
                for f in forms[(seed % 2)::2]:
                    check_one(k, Kl, f, acc)
        return
    if kind == 'NEG':
        forms = [(q, g) for g in spaces.negated_path() for q in 'AE']
        for k in (spaces.kripke_reps(1) + spaces.kripke_reps(2))[shard[1]:shard[2]]:
            Kl = lib.to_kripke(k)
            for j, f in enumerate(forms):
                if j % 64 == 0 and deadline_passed():
                    acc.capped()
                    return
                check_one(k, Kl, f, acc, audit=(j % 8 == 0))
        return
    if kind == 'EDIT':
        reps = (spaces.kripke_reps(1) + spaces.kripke_reps(2))[shard[1]:shard[2]]
        P_, Q_ = spaces.P, spaces.Q
        forms = [f for f in spaces.ctls_state_by_size(2, spaces.LEAVES2) if has_quant(f)][::3] + \
                [('A', ('F', ('G', P_))), ('E', ('G', ('F', Q_))), ('A', ('G', ('imp', P_, ('A', ('F', Q_))))),
                 ('E', ('X', ('A', ('G', P_)))), ('and', ('E', ('G', P_)), ('E', ('F', Q_)))]
        for k in reps:
            for edit, k2 in spaces.k_edits(k):
                Kl = lib.to_kripke(k)
                for f in forms:
                    check_one(k, Kl, f, acc)
                r = call(spaces.apply_edit, Kl, edit)
                if r[0] != 'ok':
                    acc.harness_error('edit %r failed: %r' % (edit, r[1:]))
                    continue
                acc.add('edit_histories')
                sem2 = Sem(k2)
                for f in forms:
                    ref = sem2.sat(f)
                    res = as_state_set(call(lib.CTLS.modelcheck, Kl, lib.build(f, lib.CTLS)))
                    acc.ev(1, 1 if 0 < len(ref) < k.n else 0)
                    if res != ('set', sorted(ref)):
                        acc.violation('wrong-answer-after-edit', kcase(k, f, edit=list(edit)), sorted(ref), res)
                        break
        return
    if kind == 'S':
        forms = special_forms()
        for k in (spaces.kripke_reps(1) + spaces.kripke_reps(2))[shard[1]:shard[2]]:
            Kl = lib.to_kripke(k)
            for f in forms:
                check_one(k, Kl, f, acc, audit=True)
        for k in spaces.kripke_reps(3, ('p',))[shard[1] * 6:shard[2] * 6]:
            Kl = lib.to_kripke(k)
            for f in forms:
                check_one(k, Kl, f, acc)
        return
    raise ValueError(shard)


def replay(art):
    case = art['case']
    k = spaces.K.from_json(case['k'])
    Kl = lib.to_kripke(k)
    if art['kind'] == 'structure-modified':
        snap = lib.snapshot_kripke(Kl)
        if 'f' in case:
            # the formula at hand and the 15 before it in its family
            fam = spaces.nary_path((spaces.P, spaces.Q, spaces.T))
            call(lib.CTLS.modelcheck, Kl, lib.build(spaces.from_jsonable(case['f']), lib.CTLS))
            if lib.snapshot_kripke(Kl) != snap:
                return {'violates': True}
            return {'violates': False, 'note': 'not reproduced by the single formula'}
        for s in (0, 1, 2):
            for f in spaces.ctls_state_by_size(s):
                call(lib.CTLS.modelcheck, Kl, lib.build(f, lib.CTLS))
        return {'violates': lib.snapshot_kripke(Kl) != snap}
    f = spaces.from_jsonable(case['f'])
    if case.get('long_atom_names'):
        Kl = Kripke(S=list(range(k.n)), R=[(i, j) for i in range(k.n) for j in k.succ[i]],
                    L=dict((i, set(LONG[a] for a in k.lab[i])) for i in range(k.n)))
        res = as_state_set(call(lib.CTLS.modelcheck, Kl, lib.build(rename_atoms(f, LONG), lib.CTLS)))
        ref = Sem(k).sat(f)
        return {'violates': res != ('set', sorted(ref)), 'expected': sorted(ref), 'got': res}
    if 'call_number' in case:
        k1 = spaces.K.from_json(case['first_structure']) if 'first_structure' in case else k
        k2 = spaces.K.from_json(case['second_structure']) if 'second_structure' in case else k
        Ka, Kb = lib.to_kripke(k1), lib.to_kripke(k2)
        obj = lib.build(f, lib.CTLS)
        out = []
        bad = False
        for Kl, kk in ((Ka, k1), (Ka, k1), (Kb, k2), (Ka, k1)):
            res = as_state_set(call(lib.CTLS.modelcheck, Kl, obj))
            out.append(res)
            rr = call(lib.read, obj)
            bad = bad or res != ('set', sorted(Sem(kk).sat(f))) or rr[0] != 'ok' or rr[1] != f
        return {'violates': bad, 'results': out}
    if case.get('fresh_name'):
        from ..runner import Acc
        acc = Acc()
        run_shard(['FRESHATOM'], 'quick', 0, acc)
        fid = 'D15' if acc.d['findings'] else None
        return {'violates': acc.d['nviol'] > 0 or fid is not None, 'finding': None if acc.d['nviol'] else fid}
    if case.get('atom_map') is not None:
        sem = Sem(k)
        for Kl2, names, m, scheme in named_instances(k):
            if scheme == case['names'] and m == case['atom_map']:
                inv = dict((repr(x), i) for i, x in enumerate(names))
                r = call(lib.CTLS.modelcheck, Kl2, lib.build(rename_atoms(f, m), lib.CTLS))
                got = None
                if r[0] == 'ok':
                    try:
                        got = frozenset(inv[repr(x)] for x in r[1])
                    except Exception:
                        got = None
                return {'violates': got != sem.sat(f), 'expected': sorted(sem.sat(f)), 'got': r[1:] if r[0] != 'ok' else sorted(map(repr, r[1]))}
        return {'violates': False}
    if art['kind'] == 'wrong-answer-after-edit':
        edit = tuple(case['edit'])
        k2 = [x for e, x in spaces.k_edits(k) if list(e) == list(edit)][0]
        call(lib.CTLS.modelcheck, Kl, lib.build(f, lib.CTLS))
        spaces.apply_edit(Kl, edit)
        ref = sorted(Sem(k2).sat(f))
        res = as_state_set(call(lib.CTLS.modelcheck, Kl, lib.build(f, lib.CTLS)))
        return {'violates': res != ('set', ref), 'expected': ref, 'got': res}
    ref = sorted(Sem(k).sat(f))
    res = as_state_set(call(lib.CTLS.modelcheck, Kl, lib.build(f, lib.CTLS)))
    res2 = as_state_set(call(lib.CTLS.modelcheck, Kl, lib.build(f, lib.CTLS)))
    return {'violates': res != ('set', ref) or res2 != res, 'expected': ref, 'got': res, 'got_again': res2}
