"""C02  LTL model checking returns exactly the states whose every path satisfies g.

Oracle: LTL.modelcheck(K, A g) == S \\ exists_path(K, not g) with exists_path the brute-force
product of mc/refsem.py; every excluded state is certified by a witness lasso evaluated with the
literal path semantics; included states are cross-checked by a complete bounded lasso sweep.
"""
import itertools

from .. import spaces, lib
from ..refsem import Sem
from ..common import call, as_state_set, kcase, certify_quantified, sweep_negative, chunks
from ..runner import deadline_passed

RULE = ('Kripke structures K(n,{p,q}) (all labelled for n<=2, iso-representatives where stated) x '
        'LTL formulas A g with g enumerated by size (every node counts) without repetition; '
        'non-trivial = g has a temporal operator and the reference answer is neither empty nor '
        'all states')
ASSUMPTIONS = ['reference: explicit product of K with all 2^|T| guesses of the temporal '
               'subformulas, generalised Buchi acceptance, Warshall-style SCCs (mc/refsem.py)',
               'every negative verdict of the reference carries a lasso certificate checked by the '
               'literal evaluator; positive verdicts swept over all lassos with stem<=n, loop<=n+1 '
               'for n<=2']
BUDGET = {'quick': 900, 'thorough': 5400}
NB3 = 64


NAME_SCHEMES = {
    'frozensets': lambda i: frozenset('xyz'[i]),            # pairwise incomparable under <
    'mixed': lambda i: (0, 'mid', ('end', 1))[i],
    'strings': lambda i: ('s', '', 'S ')[i],
    'tuples': lambda i: (i, None),
}
ATOM_MAPS = [{'p': 'door open', 'q': 'door'}, {'p': 'S', 'q': 'L'}, {'p': 'True', 'q': 'p q'}, {'p': 'q', 'q': 'p'}]


def rename_atoms(f, m):
    if f[0] == 'ap':
        return ('ap', m.get(f[1], f[1]))
    if f[0] in ('t', 'f'):
        return f
    return (f[0],) + tuple(rename_atoms(x, m) for x in f[1:])


def named_instances(k):
    """(library structure, names, atom map) for every naming scheme x atom map; with the blank-containing
    atom map every state that has q additionally carries the label 'open', so that the label sets
    {'door','open'} and {'door open'} both occur."""
    out = []
    for scheme in sorted(NAME_SCHEMES):
        names = [NAME_SCHEMES[scheme](i) for i in range(k.n)]
        for m in ATOM_MAPS:
            L = {}
            for i in range(k.n):
                labs = [m.get(a, a) for a in k.lab[i]]
                if m['p'] == 'door open' and 'q' in k.lab[i]:
                    labs.append('open')
                L[names[i]] = labs
            from pyModelChecking import Kripke
            Kl = Kripke(S=names, R=[(names[i], names[j]) for i in range(k.n) for j in k.succ[i]], L=L)
            out.append((Kl, names, m, scheme))
    return out


def scope(tier, seed):
    d = {'A': 'all 148 labelled K(<=2) x all 100 path formulas of size<=1 over {p,q,true,false}',
         'B': '82 representatives of K(<=2) x all 4224 path formulas of size 2 over 4 leaves',
         'N': '82 representatives of K(<=2) x %d path formulas with a 3-ary and/or over {p,q,true}'
              % len(spaces.nary_path((spaces.P, spaces.Q, spaces.T))),
         'G4': 'total graphs on 4 states (' + ('block %d of 16' % (seed % 16) if tier == 'quick' else 'all 50625')
               + ') x {q everywhere, q missing once} x {A F G q, A G F q, A(q U not q)}',
         'NEG': 'all 148 labelled K(<=2) x %d negation-rich path formulas (not X not p, not(not p U q), X not F p...)'
                % len(spaces.negated_path()),
         'EDIT': 'histories query / edit the same object (one added edge or toggled label) / query on the 82 '
                 'representatives x 28 formulas',
         'NAMES': 'representatives x 4 state-naming schemes (incomparable frozensets, mixed types, strings incl. the '
                  'empty one, tuples) x 4 atom renamings (names with blanks whose joined label sets collide, '
                  'capitals, look-alikes of constants, p/q swapped) x size<=1 formulas',
         'MED': '40 structures with 5-7 states x A g for g of size 1, a stride of size 2, depth-3 towers',
         'TOWER': 'a seed-indexed eighth of the 256 depth-4 towers of not/X/F/G over p and of the wide and/or on '
                  'the 82 representatives (thorough: the same, other seeds cover the rest)',
         'C': 'representatives of K(3) with labels over {p} (one atom) x all 100 formulas size<=1',
         'D': 'size-3 formulas over {p,q}: block(s) of %d x 82 representatives of K(<=2)' % NB3}
    if tier == 'thorough':
        d['D'] = 'half (by seed parity) of the 20048 size-3 formulas over {p,q} x 82 representatives of K(<=2)'
        d['E'] = '3836 representatives of K(3) x a seed-indexed sixth (112) of the 672 size-2 formulas over {p,q}'
    return d


def _k3_one_atom():
    return spaces.kripke_reps(3, ('p',))


def plan(tier, seed):
    sh = []
    for lo, hi in chunks(148, 4):
        sh.append(['A', lo, hi])
    for i in range(82):
        for b in range(2):
            sh.append(['B', i, b, 2])
    for lo, hi in chunks(82, 2):
        sh.append(['N', lo, hi])
    for lo, hi in chunks(148, 3):
        sh.append(['NEG', lo, hi])
    for lo, hi in chunks(82, 2):
        sh.append(['EDIT', lo, hi])
    for lo, hi in chunks(82, 4):
        sh.append(['S0', lo, hi])
    for i in range(40):
        sh.append(['MED', i])
    for lo, hi in chunks(82, 4):
        sh.append(['NAMES', lo, hi])
    for lo, hi in chunks(82, 2):
        sh.append(['TOWER', lo, hi])
    for lo, hi in chunks(50625, 1024):
        sh.append(['G4', lo, hi, (seed % 16) if tier == 'quick' else None])
    n3 = len(_k3_one_atom())
    for lo, hi in chunks(n3, 16):
        sh.append(['C', lo, hi])
    if tier == 'quick':
        for lo, hi in chunks(82, 2):
            sh.append(['D', lo, hi, [seed % NB3]])
    else:
        for i in range(82):
            for b in range(8):
                if b % 2 == seed % 2:
                    sh.append(['D', i, i + 1, [x for x in range(NB3) if x % 8 == b]])
        for lo, hi in chunks(3836, 12):
            sh.append(['E', lo, hi])
    return sh


def check_one(k, Kl, g, acc, audit=True, first=False):
    f = ('A', g)
    sem = Sem(k)
    ref = sem.sat(f)
    res = as_state_set(call(lib.LTL.modelcheck, Kl, lib.build(f, lib.LTL)))
    nontriv = 1 if (spaces.has_temporal(g) and 0 < len(ref) < k.n) else 0
    acc.ev(1, nontriv)
    if first:
        res2 = as_state_set(call(lib.LTL.modelcheck, Kl, lib.build(f, lib.LTL)))
        if res2 != res:
            acc.violation('nondeterministic', kcase(k, f), res, res2)
    if res != ('set', sorted(ref)):
        acc.violation('wrong-answer', kcase(k, f), sorted(ref), res)
    if audit:
        certify_quantified(sem, f, None, acc)
        if k.n <= 2:
            sweep_negative(sem, f, acc, k.n, k.n + 1)
    acc.add('states', sem.states)
    acc.add('transitions', sem.transitions)


def _ks2():
    return list(spaces.kripkes(1)) + list(spaces.kripkes(2))


def _reps2():
    return spaces.kripke_reps(1) + spaces.kripke_reps(2)


def run_shard(shard, tier, seed, acc):
    kind = shard[0]
    if kind == 'A':
        forms = spaces.path_by_size(0) + spaces.path_by_size(1)
        for k in _ks2()[shard[1]:shard[2]]:
            Kl = lib.to_kripke(k)
            for j, g in enumerate(forms):
                check_one(k, Kl, g, acc, first=(j < 10))
            acc.sample({'k': k.to_json(), 'formulas': 'A g, all g of size<=1'})
        return
    if kind == 'B':
        k = _reps2()[shard[1]]
        Kl = lib.to_kripke(k)
        for j, g in enumerate(spaces.path_by_size(2)):
            if j % shard[3] != shard[2]:
                continue
            if j % 256 == 0 and deadline_passed():
                acc.capped()
                return
            check_one(k, Kl, g, acc, audit=(j % 4 == shard[2]))
        acc.sample({'k': k.to_json(), 'formulas': 'A g, g of size 2',
                    'example': spaces.fstr(('A', spaces.path_by_size(2)[777]))})
        return
    if kind == 'G4':
        # total graphs on 4 states, q everywhere / missing in one state, recurrence formulas: the
        # smallest size with a multi-state SCC plus a later-visited state pointing into it
        Qq = spaces.Q
        forms = [('F', ('G', Qq)), ('G', ('F', Qq)), ('U', Qq, ('not', Qq))]
        for gi, succ in enumerate(itertools.islice(spaces.graphs_total(4), shard[1], shard[2])):
            if shard[3] is not None and (((shard[1] + gi) * 0x9E3779B1) % (1 << 32)) >> 28 != shard[3]:
                continue
            if deadline_passed():
                acc.capped()
                return
            for miss in (None, 0, 1, 2, 3):
                k = spaces.K(4, succ, [() if i == miss else ('q',) for i in range(4)])
                Kl = lib.to_kripke(k)
                for g in (forms if miss is not None else forms[:2]):
                    check_one(k, Kl, g, acc, audit=False)
        return
    if kind == 'NAMES':
        gs = spaces.path_by_size(0, spaces.LEAVES2) + spaces.path_by_size(1, spaces.LEAVES2)
        for k in _reps2()[shard[1]:shard[2]] + spaces.kripke_reps(3)[shard[1] * 11::900]:
            sem = Sem(k)
            for Kl, names, m, scheme in named_instances(k):
                inv = dict((repr(x), i) for i, x in enumerate(names))
                for g in gs:
                    f = ('A', g)
                    ref = sem.sat(f)
                    r = call(lib.LTL.modelcheck, Kl, lib.build(rename_atoms(f, m), lib.LTL))
                    acc.ev(1, 1 if 0 < len(ref) < k.n else 0)
                    got = None
                    if r[0] == 'ok':
                        try:
                            got = frozenset(inv[repr(x)] for x in r[1])
                        except Exception:
                            got = None
                    if got != ref:
                        acc.violation('wrong-answer', kcase(k, f, names=scheme, atom_map=m), sorted(ref),
                                      r[1:] if r[0] != 'ok' else sorted(map(repr, r[1])))
        acc.sample({'states': 'frozensets / mixed types / strings / tuples', 'atoms': ['door open', 'door', 'open']})
        return
    if kind == 'MED':
        k = spaces.medium_kripkes(seed)[shard[1]]
        Kl = lib.to_kripke(k)
        gs = spaces.path_by_size(1, spaces.LEAVES2) + spaces.path_by_size(2, spaces.LEAVES2)[(seed % 32)::32] + \
            spaces.path_towers(3)[(seed % 6)::6]
        for g in gs:
            if deadline_passed():
                acc.capped()
                return
            check_one(k, Kl, g, acc, audit=False)
        acc.sample({'k': k.to_json(), 'formulas': 'A g: size 1, stride of size 2, depth-3 towers'})
        return
    if kind == 'TOWER':
        gs = spaces.path_towers(4)[(seed % 8)::8] + spaces.wide_props()[(seed % 8)::8]
        for k in _reps2()[shard[1]:shard[2]]:
            Kl = lib.to_kripke(k)
            for j, g in enumerate(gs):
                if j % 32 == 0 and deadline_passed():
                    acc.capped()
                    return
                check_one(k, Kl, g, acc, audit=False)
        return
    if kind == 'S0':
        gs = spaces.path_by_size(0, spaces.LEAVES2) + spaces.path_by_size(1, spaces.LEAVES2)
        for k in (_reps2()[shard[1]:shard[2]] + spaces.kripke_reps(3, ('p',))[shard[1]::82]):
            for S0 in ([0], [k.n - 1], list(range(k.n))):
                Kl = lib.to_kripke(k, S0=S0)
                for g in gs:
                    check_one(k, Kl, g, acc, audit=False)
        acc.sample({'S0': [0], 'note': 'states unreachable from S0 must still be answered'})
        return
    if kind == 'NEG':
        forms = spaces.negated_path()
        for k in _ks2()[shard[1]:shard[2]]:
            Kl = lib.to_kripke(k)
            for j, g in enumerate(forms):
                if j % 64 == 0 and deadline_passed():
                    acc.capped()
                    return
                check_one(k, Kl, g, acc, audit=(j % 8 == 0))
        return
    if kind == 'EDIT':
        reps = _reps2()[shard[1]:shard[2]]
        gs = spaces.path_by_size(1, spaces.LEAVES2)
        for k in reps:
            for edit, k2 in spaces.k_edits(k):
                Kl = lib.to_kripke(k)
                for g in gs:
                    check_one(k, Kl, g, acc, audit=False)
                r = call(spaces.apply_edit, Kl, edit)
                if r[0] != 'ok':
                    acc.harness_error('edit %r failed: %r' % (edit, r[1:]))
                    continue
                acc.add('edit_histories')
                sem2 = Sem(k2)
                for g in gs:
                    f = ('A', g)
                    ref = sem2.sat(f)
                    res = as_state_set(call(lib.LTL.modelcheck, Kl, lib.build(f, lib.LTL)))
                    acc.ev(1, 1 if 0 < len(ref) < k.n else 0)
                    if res != ('set', sorted(ref)):
                        acc.violation('wrong-answer-after-edit',
                                      kcase(k, f, edit=list(edit), history='all A g (size 1), edit, query'),
                                      sorted(ref), res)
                        break
        acc.sample({'history': ['modelcheck(K, A g)', 'K.labels(0).add("p")', 'modelcheck(K, A g)'],
                    'k': reps[0].to_json()})
        return
    if kind == 'N':
        forms = spaces.nary_path((spaces.P, spaces.Q, spaces.T))
        for k in _reps2()[shard[1]:shard[2]]:
            Kl = lib.to_kripke(k)
            for j, g in enumerate(forms):
                if j % 64 == 0 and deadline_passed():
                    acc.capped()
                    return
                check_one(k, Kl, g, acc, audit=(j % 8 == 0))
        acc.sample({'k': _reps2()[shard[1]].to_json(), 'formulas': 'A g, g from the 3-ary and/or family',
                    'example': spaces.fstr(('A', forms[200]))})
        return
    if kind == 'C':
        P_, NP_ = spaces.P, ('not', spaces.P)
        # + next-time obligations nested under another temporal operator (several tableau atoms per state
        # with different successors) on these branching three-state structures
        forms = spaces.path_by_size(0) + spaces.path_by_size(1) + [
            ('X', ('X', P_)), ('X', ('X', ('X', P_))), ('X', ('X', NP_)), ('G', ('X', ('X', P_))),
            ('F', ('X', ('X', P_))), ('X', ('U', NP_, ('X', P_))), ('U', ('X', P_), ('X', ('X', NP_))),
            ('X', ('R', P_, ('X', NP_))), ('X', ('F', ('X', P_))), ('or', ('X', ('X', P_)), ('X', NP_)),
            ('G', ('F', P_)), ('F', ('G', NP_)), ('R', NP_, ('X', P_))]
        for k in _k3_one_atom()[shard[1]:shard[2]]:
            if deadline_passed():
                acc.capped()
                return
            Kl = lib.to_kripke(k)
            for g in forms:
                check_one(k, Kl, g, acc)
        return
    if kind == 'D':
        built = [(k, lib.to_kripke(k)) for k in _reps2()[shard[1]:shard[2]]]
        blocks = set(shard[3])
        for i, g in enumerate(spaces.path_iter_size(3, spaces.LEAVES2)):
            if i % NB3 not in blocks:
                continue
            if deadline_passed():
                acc.capped()
                return
            for k, Kl in built:
                check_one(k, Kl, g, acc, audit=(i % 16 == 0))
        return
    if kind == 'E':
        forms = spaces.path_by_size(2, spaces.LEAVES2)[(seed % 6)::6]
        for k in spaces.kripke_reps(3)[shard[1]:shard[2]]:
            Kl = lib.to_kripke(k)
            for j, g in enumerate(forms):
                if j % 64 == 0 and deadline_passed():
                    acc.capped()
                    return
                check_one(k, Kl, g, acc, audit=(j % 16 == 0))
        return
    raise ValueError(shard)


def replay(art):
    case = art['case']
    k = spaces.K.from_json(case['k'])
    Kl = lib.to_kripke(k)
    f = spaces.from_jsonable(case['f'])
    if case.get('atom_map') is not None:
        sem = Sem(k)
        for Kl2, names, m, scheme in named_instances(k):
            if scheme == case['names'] and m == case['atom_map']:
                inv = dict((repr(x), i) for i, x in enumerate(names))
                r = call(lib.LTL.modelcheck, Kl2, lib.build(rename_atoms(f, m), lib.LTL))
                got = None
                if r[0] == 'ok':
                    try:
                        got = frozenset(inv[repr(x)] for x in r[1])
                    except Exception:
                        got = None
                return {'violates': got != sem.sat(f), 'expected': sorted(sem.sat(f)), 'got': r[1:] if r[0] != 'ok' else sorted(map(repr, r[1]))}
        return {'violates': False}
    if art['kind'] == 'wrong-answer-after-edit':
        edit = tuple(case['edit'])
        k2 = [x for e, x in spaces.k_edits(k) if list(e) == list(edit)][0]
        gs = spaces.path_by_size(1, spaces.LEAVES2)
        for g in gs:
            call(lib.LTL.modelcheck, Kl, lib.build(('A', g), lib.LTL))
        spaces.apply_edit(Kl, edit)
        bad = []
        sem2 = Sem(k2)
        for g in gs:
            ref = sorted(sem2.sat(('A', g)))
            res = as_state_set(call(lib.LTL.modelcheck, Kl, lib.build(('A', g), lib.LTL)))
            if res != ('set', ref):
                bad.append([spaces.fstr(g), ref, res])
        return {'violates': bool(bad), 'wrong': bad[:3]}
    ref = sorted(Sem(k).sat(f))
    res = as_state_set(call(lib.LTL.modelcheck, Kl, lib.build(f, lib.LTL)))
    res2 = as_state_set(call(lib.LTL.modelcheck, Kl, lib.build(f, lib.LTL)))
    return {'violates': res != ('set', ref) or res2 != res, 'expected': ref, 'got': res,
            'got_again': res2}
