"""C01  CTL model checking returns exactly the satisfying states.

Alphabet : all total Kripke structures K(n,{p,q}); CTL state formulas by size.
Oracle   : set(CTL.modelcheck(K,f)) == ctl_sat(K,f)  (naive fixpoints), audited by the
           product semantics and witness lassos for size<=1.
"""
import itertools

from .. import spaces, lib
from ..refsem import ctl_sat, Sem
from ..common import call, as_state_set, kcase, certify_quantified, sweep_negative, chunks
from ..runner import deadline_passed

RULE = ('every labelled total Kripke structure with <=2 states over {p,q} (and iso-class '
        'representatives / all labelled structures with 3 states, tier dependent) x every CTL '
        'state formula of the stated sizes (size = number of operators, AX/EU... count one), '
        'enumerated without repetition; non-trivial = formula has a temporal operator and the '
        'reference answer is neither empty nor all states')
ASSUMPTIONS = ['reference: naive CTL fixpoints in mc/refsem.py (audited against the product '
               'semantics and literal lasso evaluation)',
               'formulas handed over as CTL objects; text input is C04/C09']
BUDGET = {'quick': 600, 'thorough': 3600}

NB3 = 256   # blocks of the size-3 formula space


def _ks2():
    return list(spaces.kripkes(1)) + list(spaces.kripkes(2))


def scope(tier, seed):
    if tier == 'quick':
        return {'A': 'all 148 labelled K(<=2) x all 8964 formulas of size<=2',
                'N': 'all 148 labelled K(<=2) x %d formulas with a 3-ary and/or' % len(spaces.nary_ctl()),
                'G4': 'all 50625 total graphs on 4 states x {p everywhere, p missing in one state} x '
                      '{EG p, AF not p, E[p U not p], A[not p R p]}',
                'NEG': 'all 148 labelled K(<=2) x %d negation-rich formulas (operators over literals, outer '
                       'negation, QX not QX towers)' % len(spaces.negated_ctl()),
                'EDIT': 'histories query / edit the same object (every single added edge, toggled label, or a '
                        'replaced labelling function with extra non-state keys) / query on the 82 '
                        'representatives x 46 formulas',
                'NAMES': 'representatives x 6 state-naming schemes (incomparable frozensets, mixed types, enum members, '
                         'strings incl. empty, tuples with None, falsy values) x 46 formulas',
                'MED': '40 structures with 5-7 states (rings with chords, chains into loops, two components, trees '
                       'with back edges, seed-generated) x size<=1, a stride of size 2, depth-3 towers, 4-5-ary and/or',
                'TOWER': 'all 2401 depth-4 towers of unary CTL operators over p, and 4-5-ary and/or, on the 82 '
                         'representatives',
                'ATOMS': '82 representatives x 8 atom renamings (S/R, L/T, kripke/states, True/False, ...) x '
                         'size<=1 and negation-rich formulas',
                'B': '3836 iso-representatives of K(3) x 144 formulas size<=1',
                'C': 'size-3 block %d of %d x 82 representatives of K(<=2)' % (seed % NB3, NB3)}
    return {'A': 'all 148 labelled K(<=2) x all 8964 formulas of size<=2',
            'N': 'all 148 labelled K(<=2) x %d formulas with a 3-ary and/or' % len(spaces.nary_ctl()),
            'G4': 'all 50625 total graphs on 4 states x {p everywhere, p missing in one state} x '
                  '{EG p, AF not p, E[p U not p], A[not p R p]}',
            'NEG': 'all 148 labelled K(<=2) x %d negation-rich formulas' % len(spaces.negated_ctl()),
            'EDIT': 'query / edit / query histories on the 82 representatives x 46 formulas',
            'B': 'all 21952 labelled K(3) x 144 formulas size<=1',
            'C': 'size-3 blocks {%d..%d} mod %d x 82 representatives of K(<=2)'
                 % (seed % NB3, (seed + 7) % NB3, NB3),
            'D': '3836 representatives of K(3) x size-2 formulas, block seed%%4 of 4',
            'E': 'K(4,{p}) all 810000 labelled x size<=1 formulas over {p,true}'}


def plan(tier, seed):
    sh = []
    for i in range(148):
        sh.append(['A', i])
    for lo, hi in chunks(148, 4):
        sh.append(['N', lo, hi])
    for lo, hi in chunks(50625, 1024):
        sh.append(['G4', lo, hi])
    for lo, hi in chunks(148, 4):
        sh.append(['NEG', lo, hi])
    for lo, hi in chunks(82, 2):
        sh.append(['EDIT', lo, hi])
    for lo, hi in chunks(82, 4):
        sh.append(['ATOMS', lo, hi])
    for lo, hi in chunks(82, 4):
        sh.append(['S0', lo, hi])
    for i in range(40):
        sh.append(['MED', i])
    for lo, hi in chunks(82, 4):
        sh.append(['NAMES', lo, hi])
    for lo, hi in chunks(82, 4):
        sh.append(['TOWER', lo, hi])
    for lo, hi in chunks(82 + 72, 6):
        sh.append(['REPEAT', lo, hi])
    sh.append(['RESERVED'])
    for shape in ('chain', 'ring'):
        for N in ((1500, 4000) if tier == 'quick' else (1500, 4000, 9000)):
            sh.append(['LONG', shape, N])
    if tier == 'quick':
        for lo, hi in chunks(3836, 48):
            sh.append(['Brep', lo, hi])
        for lo, hi in chunks(82, 4):
            sh.append(['C', lo, hi, [seed % NB3]])
    else:
        for lo, hi in chunks(21952, 256):
            sh.append(['Ball', lo, hi])
        blocks = [(seed + j) % NB3 for j in range(8)]
        for lo, hi in chunks(82, 2):
            sh.append(['C', lo, hi, blocks])
        for lo, hi in chunks(3836, 24):
            sh.append(['D', lo, hi, seed % 4])
        for lo, hi in chunks(50625, 512):
            sh.append(['E', lo, hi])
    return sh


def _forms_le(size, leaves=spaces.LEAVES4):
    out = []
    for s in range(size + 1):
        out.extend(spaces.ctl_by_size(s, leaves))
    return out


def rename_atoms(f, m):
    if f[0] == 'ap':
        return ('ap', m.get(f[1], f[1]))
    if f[0] in ('t', 'f'):
        return f
    return (f[0],) + tuple(rename_atoms(x, m) for x in f[1:])


def repeat_forms():
    """One formula in which a compound subformula occurs, occurs again, and is followed by a different
    compound one, all under operators of the restricted syntax (or, EX, EU, EG): every ordered pair of a
    pool of derived-operator subformulas x a few shapes."""
    P, Q = spaces.P, spaces.Q
    NQ = ('not', Q)
    pool = [('A', ('G', P)), ('A', ('F', Q)), ('E', ('F', P)), ('A', ('X', Q)), ('A', ('U', P, Q)),
            ('E', ('R', P, Q)), ('A', ('R', Q, P)), ('and', P, NQ), ('imp', P, Q), ('A', ('G', NQ))]
    out = []
    for a in pool:
        for b in pool:
            if a == b:
                continue
            out += [('or', a, a, b), ('or', a, b, a, b), ('E', ('U', a, ('E', ('U', a, b)))),
                    ('E', ('X', ('or', a, a, b))), ('E', ('G', ('or', a, a, b))),
                    ('or', ('E', ('X', a)), ('E', ('X', a)), ('E', ('G', b)))]
    return out


def long_structure(shape, N):
    """chain: 0 -> 1 -> ... -> N-1 -> N-1, p on all but the last state, q on the last;
    ring: i -> i+1 mod N, q on state 0, p elsewhere."""
    if shape == 'chain':
        succ = [(i + 1,) for i in range(N - 1)] + [(N - 1,)]
        lab = [('p',)] * (N - 1) + [('q',)]
    else:
        succ = [((i + 1) % N,) for i in range(N)]
        lab = [('q',)] + [('p',)] * (N - 1)
    return spaces.K(N, succ, lab)


def long_cases(shape):
    """(formula, closed form of the satisfying set as a function of N); validated against the reference
    evaluator on small N before use."""
    P, Q = spaces.P, spaces.Q
    NP, NQ = ('not', P), ('not', Q)
    ALL = lambda N: set(range(N))
    NONE = lambda N: set()
    if shape == 'chain':
        return [(('E', ('F', Q)), ALL), (('A', ('G', NQ)), NONE), (('E', ('U', P, Q)), ALL),
                (('A', ('U', P, Q)), ALL), (('A', ('R', Q, NP)), lambda N: {N - 1}), (('E', ('G', P)), NONE),
                (('A', ('F', Q)), ALL), (('E', ('X', Q)), lambda N: {N - 2, N - 1}),
                (('A', ('X', P)), lambda N: set(range(N - 2))), (('A', ('G', ('imp', P, ('A', ('F', Q))))), ALL),
                (('E', ('G', NQ)), NONE), (('A', ('G', ('E', ('F', Q)))), ALL), (('A', ('R', NP, NQ)), NONE),
                (('E', ('G', Q)), lambda N: {N - 1}), (('E', ('R', Q, P)), NONE)]
    return [(('E', ('F', Q)), ALL), (('E', ('G', P)), NONE), (('A', ('F', Q)), ALL), (('A', ('U', P, Q)), ALL),
            (('E', ('X', Q)), lambda N: {N - 1}), (('A', ('G', ('E', ('F', Q)))), ALL),
            (('E', ('G', ('or', P, Q))), ALL), (('A', ('G', ('A', ('F', P)))), ALL), (('A', ('G', P)), NONE),
            (('E', ('U', P, ('and', Q, ('E', ('X', P))))), ALL), (('A', ('R', Q, P)), NONE)]


def check_one(k, Kl, f, acc, audit=False, first=False):
    ref = ctl_sat(k, f)
    res = as_state_set(call(lib.CTL.modelcheck, Kl, lib.build(f, lib.CTL)))
    nontriv = 1 if (spaces.has_temporal(f) and 0 < len(ref) < k.n) else 0
    acc.ev(1, nontriv)
    if first:
        res2 = as_state_set(call(lib.CTL.modelcheck, Kl, lib.build(f, lib.CTL)))
        if res2 != res:
            acc.violation('nondeterministic', kcase(k, f), res, res2)
    if res != ('set', sorted(ref)):
        acc.violation('wrong-answer', kcase(k, f), sorted(ref), res)
    if audit:
        sem = Sem(k)
        if sem.sat(f) != ref:
            acc.harness_error('reference audit: ctl_sat %r != product %r for %r on %r'
                              % (sorted(ref), sorted(sem.sat(f)), f, k))
        certify_quantified(sem, f, None, acc)
        if k.n <= 2:
            sweep_negative(sem, f, acc, k.n, k.n)
        acc.add('states', sem.states)
        acc.add('transitions', sem.transitions)


def run_shard(shard, tier, seed, acc):
    kind = shard[0]
    if kind == 'REPEAT':
        forms = repeat_forms()
        ks = (spaces.kripke_reps(1) + spaces.kripke_reps(2) + spaces.kripke_reps(3)[(seed % 53)::53])[shard[1]:shard[2]]
        for k in ks:
            Kl = lib.to_kripke(k)
            for j, f in enumerate(forms):
                if j % 64 == 0 and deadline_passed():
                    acc.capped()
                    return
                check_one(k, Kl, f, acc)
        return
    if kind == 'RESERVED':
        # atoms whose name is the printed form of a Boolean constant (built through the API or written as
        # the quoted atom "true"): known finding D16 when the answer is the one obtained by reading the
        # atom as that constant, a violation otherwise
        for name, const in (('true', ('t',)), ('false', ('f',))):
            a = ('ap', name)
            forms = [f for s_ in (0, 1, 2) for f in spaces.ctl_by_size(s_, (a, spaces.P))
                     if name in spaces.fstr(f)]
            forms += [('or', a, ('not', ('E', ('F', spaces.P))), a), ('and', ('A', ('G', spaces.P)), a, ('t',)),
                      ('or', ('f',), a), ('and', ('t',), ('not', a))]

            def subst(f):
                if f == a:
                    return const
                if f[0] in ('ap', 't', 'f'):
                    return f
                return (f[0],) + tuple(subst(x) for x in f[1:])
            for k0 in spaces.kripke_reps(2, ('p',)):
                for labelled in ((), (0,)):
                    k = spaces.K(k0.n, k0.succ, [set(k0.lab[i]) | ({name} if i in labelled else set())
                                                 for i in range(k0.n)])
                    Kl = lib.to_kripke(k)
                    for f in forms:
                        ref = ctl_sat(k, f)
                        r = call(lib.CTL.modelcheck, Kl, lib.build(f, lib.CTL))
                        acc.ev(1, 1)
                        got = frozenset(r[1]) if r[0] == 'ok' and isinstance(r[1], set) else None
                        if got == frozenset(ref):
                            continue
                        case = kcase(k, f, reserved_atom=name)
                        if got is not None and got == frozenset(ctl_sat(k, subst(f))):
                            acc.finding('D16', case, sorted(ref), sorted(got))
                        else:
                            acc.violation('wrong-answer', case, sorted(ref), r[1:] if r[0] != 'ok' else sorted(got))
        return
    if kind == 'LONG':
        shape, N = shard[1], shard[2]
        cases = long_cases(shape)
        for n_small in (3, 4, 7):
            ks = long_structure(shape, n_small)
            for f, closed in cases:
                if ctl_sat(ks, f) != frozenset(closed(n_small)) and set(ctl_sat(ks, f)) != closed(n_small):
                    acc.harness_error('closed form for %r on %s(%d) disagrees with the reference' % (f, shape, n_small))
                    return
        k = long_structure(shape, N)
        Kl = lib.to_kripke(k)
        for f, closed in cases:
            want = closed(N)
            res = call(lib.CTL.modelcheck, Kl, lib.build(f, lib.CTL))
            acc.ev(1, 1 if 0 < len(want) < N else 0)
            if res[0] != 'ok' or not isinstance(res[1], set) or res[1] != want:
                got = res[1:] if res[0] != 'ok' else ('%d states' % len(res[1]), sorted(res[1])[:5])
                acc.violation('wrong-answer-on-long-structure',
                              {'shape': shape, 'N': N, 'f': spaces.to_jsonable(f), 'f_str': spaces.fstr(f)},
                              ('%d states' % len(want), sorted(want)[:5]), got)
        return
    if kind == 'A':
        k = _ks2()[shard[1]]
        Kl = lib.to_kripke(k)
        snap = lib.snapshot_kripke(Kl)
        n = 0
        for size in (0, 1, 2):
            for f in spaces.ctl_by_size(size):
                check_one(k, Kl, f, acc, audit=(size <= 1), first=(n < 20))
                n += 1
        if lib.snapshot_kripke(Kl) != snap:
            acc.violation('structure-modified', kcase(k), None, None)
        acc.sample({'k': k.to_json(), 'formulas': 'all of size<=2', 'example':
                    spaces.fstr(spaces.ctl_by_size(2)[1234])})
        return
    if kind == 'G4':
        # every total graph on 4 states (the smallest size with an SCC plus a later-visited node
        # pointing into a non-root member), p everywhere / missing in exactly one state, the
        # operators whose evaluation goes through SCCs and backward reachability
        P = spaces.P
        NP = ('not', P)
        full = [('E', ('G', P)), ('A', ('F', NP)), ('E', ('U', P, NP)), ('A', ('R', NP, P))]
        for succ in itertools.islice(spaces.graphs_total(4), shard[1], shard[2]):
            if deadline_passed():
                acc.capped()
                return
            k = spaces.K(4, succ, [('p',)] * 4)
            Kl = lib.to_kripke(k)
            for f in full[:2]:
                check_one(k, Kl, f, acc)
            for miss in range(4):
                k = spaces.K(4, succ, [() if i == miss else ('p',) for i in range(4)])
                Kl = lib.to_kripke(k)
                for f in full:
                    check_one(k, Kl, f, acc)
        return
    if kind == 'NAMES':
        import enum
        Col = enum.Enum('Col', 'red green blue')
        schemes = {'frozensets': lambda i: frozenset('xyz'[i]), 'mixed': lambda i: (0, 'mid', ('end', 1))[i],
                   'enum': lambda i: list(Col)[i], 'strings': lambda i: ('s', '', 'S ')[i],
                   'none-tuples': lambda i: (None, i), 'falsy': lambda i: (0, '', ())[i]}
        forms = _forms_le(1, spaces.LEAVES2)
        from pyModelChecking import Kripke
        for k in (spaces.kripke_reps(1) + spaces.kripke_reps(2))[shard[1]:shard[2]] + spaces.kripke_reps(3)[shard[1] * 11::450]:
            for sname in sorted(schemes):
                names = [schemes[sname](i) for i in range(k.n)]
                Kl = Kripke(S=names, R=[(names[i], names[j]) for i in range(k.n) for j in k.succ[i]],
                            L=dict((names[i], set(k.lab[i])) for i in range(k.n)))
                inv = dict((repr(x), i) for i, x in enumerate(names))
                for f in forms:
                    ref = ctl_sat(k, f)
                    r = call(lib.CTL.modelcheck, Kl, lib.build(f, lib.CTL))
                    acc.ev(1, 1 if 0 < len(ref) < k.n else 0)
                    got = None
                    if r[0] == 'ok':
                        try:
                            got = frozenset(inv[repr(x)] for x in r[1])
                        except Exception:
                            got = None
                    if got != ref:
                        acc.violation('wrong-answer', kcase(k, f, names=sname), sorted(ref),
                                      r[1:] if r[0] != 'ok' else sorted(map(repr, r[1])))
        acc.sample({'states': 'frozensets / mixed / enum members / strings / tuples with None / falsy values'})
        return
    if kind == 'MED':
        # 5-7 states: every formula of size<=1, a stride of size 2, depth-3 towers, wide and/or
        k = spaces.medium_kripkes(seed)[shard[1]]
        Kl = lib.to_kripke(k)
        forms = _forms_le(1, spaces.LEAVES2) + spaces.ctl_by_size(2, spaces.LEAVES2)[(seed % 5)::5] + \
            spaces.ctl_towers(3)[::3] + spaces.wide_props()
        for f in forms:
            check_one(k, Kl, f, acc)
        acc.sample({'k': k.to_json(), 'formulas': 'size<=1, stride of size 2, towers, 4-5-ary and/or'})
        return
    if kind == 'TOWER':
        forms = spaces.ctl_towers(4) + spaces.wide_props()
        for k in (spaces.kripke_reps(1) + spaces.kripke_reps(2))[shard[1]:shard[2]]:
            Kl = lib.to_kripke(k)
            for f in forms:
                check_one(k, Kl, f, acc)
        return
    if kind == 'S0':
        # initial states are part of the structure but not of the semantics of modelcheck: the
        # answer ranges over ALL states, reachable from S0 or not
        forms = _forms_le(1, spaces.LEAVES2)
        for k in ((spaces.kripke_reps(1) + spaces.kripke_reps(2))[shard[1]:shard[2]] + spaces.kripke_reps(3, ('p',))[shard[1]::82]):
            for S0 in ([0], [k.n - 1], list(range(k.n)), []):
                Kl = lib.to_kripke(k, S0=S0)
                for f in forms:
                    check_one(k, Kl, f, acc)
        acc.sample({'S0': [0], 'note': 'states unreachable from S0 must still be answered'})
        return
    if kind == 'ATOMS':
        # the same structures and formulas under other atom names: single capitals, names of the
        # checker's own variables, look-alikes of the constants, non-identifier strings
        maps = [{'p': 'S', 'q': 'R'}, {'p': 'L', 'q': 'T'}, {'p': 'kripke', 'q': 'states'},
                {'p': 'True', 'q': 'False'}, {'p': 'formula', 'q': 'Lformula'}, {'p': 'p q', 'q': ''},
                {'p': 'V', 'q': 'E'}, {'p': 'None', 'q': '0'}]
        forms = _forms_le(1, spaces.LEAVES2) + spaces.negated_ctl()[::3]
        for k in (spaces.kripke_reps(1) + spaces.kripke_reps(2))[shard[1]:shard[2]]:
            for m in maps:
                k2 = spaces.K(k.n, k.succ, [[m.get(a, a) for a in l] for l in k.lab])
                Kl = lib.to_kripke(k2)
                for f in forms:
                    check_one(k2, Kl, rename_atoms(f, m), acc)
        acc.sample({'atoms': ['S', 'R'], 'formula': 'A(G((S --> A(F(R)))))'})
        return
    if kind == 'NEG':
        forms = spaces.negated_ctl()
        for k in _ks2()[shard[1]:shard[2]]:
            Kl = lib.to_kripke(k)
            for j, f in enumerate(forms):
                check_one(k, Kl, f, acc, audit=(j % 16 == 0))
        return
    if kind == 'EDIT':
        # histories: query, edit the SAME structure object through its public API, query again
        reps = (spaces.kripke_reps(1) + spaces.kripke_reps(2))[shard[1]:shard[2]]
        forms = _forms_le(1, spaces.LEAVES2)
        for k in reps:
            for edit, k2 in spaces.k_edits(k):
                Kl = lib.to_kripke(k)
                for f in forms:
                    check_one(k, Kl, f, acc)
                r = call(spaces.apply_edit, Kl, edit)
                if r[0] != 'ok':
                    acc.harness_error('edit %r failed: %r' % (edit, r[1:]))
                    continue
                acc.add('edit_histories')
                for f in forms:
                    ref = ctl_sat(k2, f)
                    res = as_state_set(call(lib.CTL.modelcheck, Kl, lib.build(f, lib.CTL)))
                    acc.ev(1, 1 if 0 < len(ref) < k.n else 0)
                    if res != ('set', sorted(ref)):
                        acc.violation('wrong-answer-after-edit',
                                      kcase(k, f, edit=list(edit), history='all size<=1 formulas, edit, query'),
                                      sorted(ref), res)
                        break
        acc.sample({'history': ['modelcheck(K, f)', 'K.add_edge(0, 1)', 'modelcheck(K, f)'],
                    'k': reps[0].to_json()})
        return
    if kind == 'N':
        forms = spaces.nary_ctl()
        for k in _ks2()[shard[1]:shard[2]]:
            Kl = lib.to_kripke(k)
            for j, f in enumerate(forms):
                check_one(k, Kl, f, acc, audit=(j % 16 == 0))
        acc.sample({'k': _ks2()[shard[1]].to_json(), 'formulas': '3-ary and/or family',
                    'example': spaces.fstr(forms[300])})
        return
    if kind in ('Brep', 'Ball'):
        if kind == 'Brep':
            ks = spaces.kripke_reps(3)[shard[1]:shard[2]]
        else:
            ks = itertools.islice(spaces.kripkes(3), shard[1], shard[2])
        forms = _forms_le(1)
        for i, k in enumerate(ks):
            if deadline_passed():
                acc.capped()
                return
            Kl = lib.to_kripke(k)
            audit = (kind == 'Brep' and i % 8 == 0) or (kind == 'Ball' and i % 64 == 0)
            for f in forms:
                check_one(k, Kl, f, acc, audit=audit)
            if i == 0:
                acc.sample({'k': k.to_json(), 'formulas': 'all 144 of size<=1'})
        return
    if kind == 'C':
        reps = (spaces.kripke_reps(1) + spaces.kripke_reps(2))[shard[1]:shard[2]]
        blocks = set(shard[3])
        built = [(k, lib.to_kripke(k)) for k in reps]
        for i, f in enumerate(spaces.ctl_iter_size(3)):
            if i % NB3 not in blocks:
                continue
            if (i // NB3) % 64 == 0 and deadline_passed():
                acc.capped()
                return
            for k, Kl in built:
                check_one(k, Kl, f, acc)
        return
    if kind == 'D':
        reps = spaces.kripke_reps(3)[shard[1]:shard[2]]
        forms = [f for i, f in enumerate(spaces.ctl_by_size(2)) if i % 4 == shard[3]]
        for k in reps:
            if deadline_passed():
                acc.capped()
                return
            Kl = lib.to_kripke(k)
            for f in forms:
                check_one(k, Kl, f, acc)
        return
    if kind == 'E':
        leaves = (spaces.P, spaces.T)
        forms = _forms_le(1, leaves)
        succs = list(itertools.islice(spaces.graphs_total(4), shard[1], shard[2]))
        labs = list(spaces.labellings(4, ('p',)))
        for succ in succs:
            if deadline_passed():
                acc.capped()
                return
            for lab in labs:
                k = spaces.K(4, succ, lab)
                Kl = lib.to_kripke(k)
                for f in forms:
                    check_one(k, Kl, f, acc)
        return
    raise ValueError(shard)


def replay(art):
    case = art['case']
    if 'shape' in case:
        f = spaces.from_jsonable(case['f'])
        closed = [c for g, c in long_cases(case['shape']) if g == f][0]
        res = call(lib.CTL.modelcheck, lib.to_kripke(long_structure(case['shape'], case['N'])), lib.build(f, lib.CTL))
        return {'violates': res[0] != 'ok' or res[1] != closed(case['N']), 'got': res[:2] if res[0] != 'ok' else len(res[1])}
    k = spaces.K.from_json(case['k'])
    Kl = lib.to_kripke(k)
    if case.get('reserved_atom'):
        from ..runner import Acc
        acc = Acc()
        run_shard(['RESERVED'], 'quick', 0, acc)
        fid = 'D16' if acc.d['findings'] else None
        return {'violates': acc.d['nviol'] > 0 or fid is not None, 'finding': None if acc.d['nviol'] else fid}
    if art['kind'] == 'structure-modified':
        snap = lib.snapshot_kripke(Kl)
        for size in (0, 1, 2):
            for f in spaces.ctl_by_size(size):
                call(lib.CTL.modelcheck, Kl, lib.build(f, lib.CTL))
        return {'violates': lib.snapshot_kripke(Kl) != snap}
    f = spaces.from_jsonable(case['f'])
    if case.get('names'):
        from ..runner import Acc
        acc = Acc()
        for lo in range(0, 82, 4):
            reps = (spaces.kripke_reps(1) + spaces.kripke_reps(2))[lo:lo + 4] + spaces.kripke_reps(3)[lo * 11::450]
            if any(x.key() == k.key() for x in reps):
                run_shard(['NAMES', lo, lo + 4], 'quick', 0, acc)
                break
        return {'violates': acc.d['nviol'] > 0, 'detail': acc.d['violations'][:1]}
    if art['kind'] == 'wrong-answer-after-edit':
        edit = tuple(case['edit'])
        k2 = [x for e, x in spaces.k_edits(k) if list(e) == list(edit)][0]
        for g in _forms_le(1, spaces.LEAVES2):
            call(lib.CTL.modelcheck, Kl, lib.build(g, lib.CTL))
        spaces.apply_edit(Kl, edit)
        bad = []
        for g in _forms_le(1, spaces.LEAVES2):
            ref = sorted(ctl_sat(k2, g))
            res = as_state_set(call(lib.CTL.modelcheck, Kl, lib.build(g, lib.CTL)))
            if res != ('set', ref):
                bad.append([spaces.fstr(g), ref, res])
        return {'violates': bool(bad), 'wrong': bad[:3]}
    ref = sorted(ctl_sat(k, f))
    res = as_state_set(call(lib.CTL.modelcheck, Kl, lib.build(f, lib.CTL)))
    res2 = as_state_set(call(lib.CTL.modelcheck, Kl, lib.build(f, lib.CTL)))
    return {'violates': res != ('set', ref) or res2 != res, 'expected': ref, 'got': res,
            'got_again': res2}
