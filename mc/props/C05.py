"""C05  Rewriting to the restricted syntax and LNot preserve meaning.

(a) syntactic: the returned object uses only the documented restricted alphabet and is a formula of
    the same logic; (b) semantic: state formulas agree with the original on every small Kripke
    structure (reference semantics only - the implementation's checkers are never called), path
    formulas agree at position 0 of EVERY lasso word over 2^{p,q} within the length bound.
LNot(f) is equivalent to not f and never starts with two negations.
"""
import itertools

from .. import spaces, lib, members
from ..refsem import Sem, ctl_sat, lasso_eval, is_state
from ..common import call, chunks
from ..runner import deadline_passed

RULE = ('per logic all formulas of size<=2 (+3-ary and/or families, blocks of size 3), each also under '
        '1..3 outer negations for LNot; non-trivial = the formula contains an operator outside the '
        'restricted alphabet (and, -->, A, F, G, R)')
ASSUMPTIONS = ['restricted alphabet: not, or, X, U, E, true, atoms (false is returned unchanged by the '
               'library and counts as an atom); CTL additionally E followed by X, U or G',
               'semantic equivalence is judged by mc/refsem.py only']
BUDGET = {'quick': 900, 'thorough': 3600}
NB3 = 64

ALPHA = {'CTLS': set(['not', 'or', 'X', 'U', 'E', 't', 'f', 'ap']),
         'LTL': set(['not', 'or', 'X', 'U', 't', 'f', 'ap']),
         'CTL': set(['not', 'or', 'X', 'U', 'G', 'E', 't', 'f', 'ap'])}


def words(max_stem, max_loop):
    letters = [frozenset(c) for r in range(3) for c in itertools.combinations(('p', 'q'), r)]
    out = []
    for a in range(max_stem + 1):
        for b in range(1, max_loop + 1):
            for w in itertools.product(letters, repeat=a + b):
                out.append((a, w))
    return out


_WORDS = {}


def get_words(tier):
    key = (1, 3) if tier == 'quick' else (2, 3)
    if key not in _WORDS:
        _WORDS[key] = words(*key)
    return _WORDS[key]


def path_truth(g, a, w):
    """Truth of path formula g (no quantifiers) at position 0 of the word w with loop start a."""
    def sat(h, i):
        op = h[0]
        if op == 't':
            return True
        if op == 'f':
            return False
        if op == 'ap':
            return h[1] in w[i]
        if op == 'not':
            return not sat(h[1], i)
        if op == 'and':
            return all(sat(x, i) for x in h[1:])
        if op == 'or':
            return any(sat(x, i) for x in h[1:])
        if op == 'imp':
            return (not sat(h[1], i)) or sat(h[2], i)
        raise ValueError(h)
    return lasso_eval(g, len(w), a, sat)[0]


def syntactic(t, logic):
    """None if t is in the restricted alphabet of logic, else a reason."""
    def walk(h, under_e):
        op = h[0]
        if op not in ALPHA[logic]:
            return 'operator %s outside the restricted alphabet' % op
        if op == 'G' and not (logic == 'CTL' and under_e):
            return 'G outside EG'
        if logic == 'CTL' and op == 'E' and h[1][0] not in ('X', 'U', 'G'):
            return 'E not followed by X, U or G'
        if op in ('or',) and len(h) < 3:
            return 'or with one operand'
        for x in h[1:]:
            if isinstance(x, tuple):
                r = walk(x, op == 'E')
                if r:
                    return r
        return None
    return walk(t, False)


def has_nonrestricted(t):
    if t[0] in ('and', 'imp', 'A', 'F', 'G', 'R'):
        return True
    if t[0] in ('ap', 't', 'f'):
        return False
    return any(has_nonrestricted(x) for x in t[1:])


def scope(tier, seed):
    return {'CTL': 'all formulas size<=2 + 3-ary family (+ size-3 block) ; semantic check on all 148 '
                   'labelled K(<=2)' + ('' if tier == 'quick' else ' and 3836 representatives of K(3) for size<=1'),
            'LTL/CTL* path': 'all path formulas size<=2 + 3-ary family (+ size-3 block over {p,q}) on every '
                             'lasso word over 2^{p,q} with stem<=%d, loop<=3 (%d words)'
                             % ((1, 420) if tier == 'quick' else (2, 1764)),
            'CTL* quantified': 'A g / E g for all g of size<=1 and nested shapes, on all 148 K(<=2)',
            'LNot': 'every formula above under 0..3 outer negations',
            'deep': 'same-operator nestings 3-4 deep and implication chains over 4 atoms, temporal operators over '
                    'constants and over atoms named True/False/None, in all three logics'}


def rename(f, m):
    if f[0] == 'ap':
        return ('ap', m.get(f[1], f[1]))
    if f[0] in ('t', 'f'):
        return f
    return (f[0],) + tuple(rename(x, m) for x in f[1:])


def deep_shapes():
    """Same-operator nestings 3 and 4 deep (left, right, mixed with 3-ary), implication chains."""
    P_, Q_, T_, F__ = spaces.P, spaces.Q, spaces.T, spaces.F_
    R_ = ('ap', 'r')
    S_ = ('ap', 's')
    out = []
    for op in ('and', 'or'):
        out += [(op, (op, (op, P_, Q_), R_), S_), (op, P_, (op, Q_, (op, R_, S_))), (op, (op, P_, Q_), (op, R_, S_)),
                (op, (op, P_, Q_, R_), S_), (op, P_, (op, Q_, R_, S_)), (op, (op, (op, (op, P_, Q_), R_), S_), P_),
                (op, ('not', (op, P_, (op, Q_, R_))), S_), (op, T_, (op, F__, (op, P_, T_)))]
        other = 'or' if op == 'and' else 'and'
        out += [(op, (other, (op, P_, Q_), R_), S_), (op, P_, (other, Q_, (op, R_, S_)))]
    out += [('imp', ('imp', ('imp', P_, Q_), R_), S_), ('imp', P_, ('imp', Q_, ('imp', R_, S_))),
            ('imp', F__, P_), ('imp', T_, P_), ('imp', P_, F__), ('imp', ('not', T_), Q_)]
    return out


def plan(tier, seed):
    sh = []
    sh.append(['deep'])
    sh.append(['edited'])
    for i in range(16):
        sh.append(['ctl', i, 16])
    for lg in ('LTL', 'CTLS'):
        for i in range(16):
            sh.append(['path', lg, i, 16])
    sh.append(['quant'])
    blocks = [seed % NB3] if tier == 'quick' else [(seed + j) % NB3 for j in range(8)]
    for b in blocks:
        sh.append(['ctl3', b])
        sh.append(['path3', 'LTL', b])
        sh.append(['path3', 'CTLS', b])
    return sh


_KS = []


def ks2():
    if not _KS:
        _KS.extend(list(spaces.kripkes(1)) + list(spaces.kripkes(2)))
    return _KS


def state_equiv(t, t2, sems):
    for k, sem in sems:
        if sem.sat(t) != sem.sat(t2):
            return k
    return None


def check_rewrite(logic, t, acc, sems=None, tier='quick', state=False):
    L = lib.LANGS[logic]
    case = {'logic': logic, 'tree': spaces.to_jsonable(t), 'tree_str': spaces.fstr(t)}
    nontriv = 1 if has_nonrestricted(t) else 0
    acc.ev(1, nontriv)
    obj = lib.build(t, L)
    r = call(obj.get_equivalent_restricted_formula)
    if r[0] != 'ok':
        if logic == 'LTL' and t[0] == 'A' and r[1] == 'AttributeError' and "'E'" in r[2]:
            acc.finding('D8', case, 'restricted formula', r[1:])
        else:
            acc.violation('rewrite-exception', case, 'restricted formula', r[1:])
        return
    rr = call(lib.read, r[1])
    if rr[0] != 'ok':
        acc.violation('rewrite-returns-non-formula', case, None, rr[1:])
        return
    t2 = rr[1]
    why = syntactic(t2, logic)
    if why:
        acc.violation('not-restricted', case, 'restricted alphabet', {'result': spaces.fstr(t2), 'why': why})
    if not members.MEMBER[logic](t2) or not lib.all_same_lang(r[1], logic):
        acc.violation('rewrite-leaves-logic', case, logic, spaces.fstr(t2))
    if lib.read(obj) != t:
        acc.violation('rewrite-modified-original', case, spaces.fstr(t), spaces.fstr(lib.read(obj)))
    if state:
        bad = state_equiv(t, t2, sems)
        if bad is not None:
            acc.violation('rewrite-not-equivalent', dict(case, k=bad.to_json()), None,
                          {'result': spaces.fstr(t2)})
    else:
        for a, w in get_words(tier):
            if path_truth(t, a, w) != path_truth(t2, a, w):
                acc.violation('rewrite-not-equivalent', dict(case, stem_len=a, word=[sorted(x) for x in w]),
                              None, {'result': spaces.fstr(t2)})
                break
    return t2


def atoms_of(f, acc_set):
    if f[0] == 'ap':
        acc_set.add(f[1])
    elif f[0] not in ('t', 'f'):
        for x in f[1:]:
            atoms_of(x, acc_set)
    return acc_set


def check_rewrite_words4(logic, t, acc, state=False):
    """Like check_rewrite but over the formula's own atom set: Boolean/path formulas on every lasso
    word with stem<=1, loop<=2 over 2^atoms; CTL state formulas on every labelled structure with <=2
    states over (up to 3 of) those atoms."""
    L = lib.LANGS[logic]
    case = {'logic': logic, 'tree': spaces.to_jsonable(t), 'tree_str': spaces.fstr(t)}
    acc.ev(1, 1 if has_nonrestricted(t) else 0)
    obj = lib.build(t, L)
    r = call(obj.get_equivalent_restricted_formula)
    if r[0] != 'ok':
        acc.violation('rewrite-exception', case, 'restricted formula', r[1:])
        return
    rr = call(lib.read, r[1])
    if rr[0] != 'ok':
        acc.violation('rewrite-returns-non-formula', case, None, rr[1:])
        return
    t2 = rr[1]
    why = syntactic(t2, logic)
    if why:
        acc.violation('not-restricted', case, 'restricted alphabet', {'result': spaces.fstr(t2), 'why': why})
    atoms = sorted(atoms_of(t, set()) | atoms_of(t2, set()))
    if state or (logic == 'CTL' and spaces.has_temporal(t)):
        for n in (1, 2):
            for k in spaces.kripkes(n, tuple(atoms[:3])):
                if ctl_sat(k, t) != ctl_sat(k, t2):
                    acc.violation('rewrite-not-equivalent', dict(case, k=k.to_json()), None,
                                  {'result': spaces.fstr(t2)})
                    return
        return
    letters = [frozenset(c) for r_ in range(len(atoms) + 1) for c in itertools.combinations(atoms, r_)]
    for a in (0, 1):
        for b in (1, 2):
            for w in itertools.product(letters, repeat=a + b):
                if path_truth(t, a, w) != path_truth(t2, a, w):
                    acc.violation('rewrite-not-equivalent', dict(case, stem_len=a, word=[sorted(x) for x in w]),
                                  None, {'result': spaces.fstr(t2)})
                    return


def check_lnot(logic, t, acc, sems=None, tier='quick', state=False):
    L = lib.LANGS[logic]
    for depth in range(0, 4):
        tn = t
        for _ in range(depth):
            tn = ('not', tn)
        case = {'logic': logic, 'tree': spaces.to_jsonable(tn), 'tree_str': spaces.fstr(tn), 'op': 'LNot'}
        obj = lib.build(tn, L)
        r = call(lib.CTLS.LNot, obj)
        acc.ev(1, 1 if depth >= 1 else 0)
        if r[0] != 'ok':
            acc.violation('lnot-exception', case, None, r[1:])
            continue
        rr = call(lib.read, r[1])
        if rr[0] != 'ok':
            acc.violation('lnot-returns-non-formula', case, None, rr[1:])
            continue
        t2 = rr[1]
        if t2[0] == 'not' and t2[1][0] == 'not':
            acc.violation('lnot-starts-with-two-negations', case, None, spaces.fstr(t2))
        if not members.MEMBER[logic](t2):
            acc.violation('lnot-leaves-logic', case, logic, spaces.fstr(t2))
        want = ('not', tn)
        if state:
            bad = state_equiv(want, t2, sems)
            if bad is not None:
                acc.violation('lnot-not-equivalent', dict(case, k=bad.to_json()), spaces.fstr(want),
                              spaces.fstr(t2))
        else:
            for a, w in get_words('quick'):
                if path_truth(want, a, w) != path_truth(t2, a, w):
                    acc.violation('lnot-not-equivalent', dict(case, stem_len=a, word=[sorted(x) for x in w]),
                                  spaces.fstr(want), spaces.fstr(t2))
                    break
        if lib.read(obj) != tn:
            acc.violation('lnot-modified-argument', case)


class CtlSem(object):
    """ctl_sat with a per-structure memo, same interface as Sem.sat."""

    def __init__(self, k):
        self.k = k
        self.memo = {}

    def sat(self, f):
        return ctl_sat(self.k, f, self.memo)


def run_shard(shard, tier, seed, acc):
    kind = shard[0]
    if kind in ('ctl', 'ctl3'):
        sems = [(k, CtlSem(k)) for k in ks2()]
        if kind == 'ctl':
            forms = [f for s in (0, 1, 2) for f in spaces.ctl_by_size(s)] + spaces.nary_ctl()
            forms = [f for i, f in enumerate(forms) if i % shard[2] == shard[1]]
        else:
            forms = (f for i, f in enumerate(spaces.ctl_iter_size(3)) if i % (NB3 * 16) == shard[1])
        for j, f in enumerate(forms):
            if j % 64 == 0:
                if deadline_passed():
                    acc.capped()
                    return
                for k, sm in sems:
                    sm.memo.clear()
            check_rewrite('CTL', f, acc, sems, tier, state=True)
            if kind == 'ctl' and j % 4 == 0:
                check_lnot('CTL', f, acc, sems, tier, state=True)
        acc.sample({'logic': 'CTL', 'formula': 'A((p --> q) U (p and q and true))'})
        return
    if kind in ('path', 'path3'):
        lg = shard[1]
        if kind == 'path':
            forms = [f for s in (0, 1, 2) for f in spaces.path_by_size(s)] + spaces.nary_path()
            forms = [f for i, f in enumerate(forms) if i % shard[3] == shard[2]]
        else:
            forms = [f for i, f in enumerate(spaces.path_iter_size(3, spaces.LEAVES2))
                     if i % (NB3 * 4) == shard[2]]
        for j, f in enumerate(forms):
            if j % 16 == 0 and deadline_passed():
                acc.capped()
                return
            check_rewrite(lg, f, acc, None, tier, state=False)
            if kind == 'path' and j % 4 == 0:
                check_lnot(lg, f, acc, None, tier, state=False)
        acc.sample({'logic': lg, 'formula': 'G(p --> F(q))', 'words': len(get_words(tier))})
        return
    if kind == 'edited':
        # histories: rewrite, edit an operand in place, rewrite again (must follow the new tree);
        # rewrite twice (same result, fresh object)
        for lg in ('CTL', 'LTL', 'CTLS'):
            L = lib.LANGS[lg]
            if lg == 'CTL':
                pool = [t for t in spaces.ctl_by_size(2, spaces.LEAVES2) if t[0] in ('A', 'E') or t[0] in ('and', 'or', 'imp', 'not')][::3]
            else:
                pool = [t for t in spaces.path_by_size(2, spaces.LEAVES2)][::2]
            for t in pool:
                o = lib.build(t, L)
                r1 = call(o.get_equivalent_restricted_formula)
                if r1[0] != 'ok':
                    continue
                # locate a non-leaf operand (under A/E the path operator)
                target = o
                tt_ = t
                path = []
                if tt_[0] in ('A', 'E') and lg == 'CTL':
                    target = o._subformula[0]
                    tt_ = t[1]
                    path = [0]
                ci = [i for i, x in enumerate(tt_[1:]) if x[0] in ('ap',)]
                if not ci:
                    continue
                ci = ci[0]
                new_leaf = ('ap', 'q' if tt_[1 + ci] == ('ap', 'p') else 'p')
                args = list(target._subformula)
                args[ci] = lib.build(new_leaf, L)
                r = call(lambda: target.__init__(*args))
                if r[0] != 'ok':
                    continue
                new_inner = tt_[:1 + ci] + (new_leaf,) + tt_[2 + ci:]
                t2 = (t[0], new_inner) if path else new_inner
                rr = call(lib.read, o)
                if rr[0] != 'ok' or rr[1] != t2:
                    continue
                acc.ev(1, 1)
                r2 = call(o.get_equivalent_restricted_formula)
                fresh = call(lib.build(t2, L).get_equivalent_restricted_formula)
                case = {'logic': lg, 'tree': spaces.to_jsonable(t2), 'tree_str': spaces.fstr(t2),
                        'history': 'rewritten as %s, one operand replaced in place, rewritten again' % spaces.fstr(t)}
                if r2[0] != 'ok' or fresh[0] != 'ok' or lib.read(r2[1]) != lib.read(fresh[1]):
                    acc.violation('rewrite-stale-after-edit', case,
                                  None if fresh[0] != 'ok' else spaces.fstr(lib.read(fresh[1])),
                                  r2[1:] if r2[0] != 'ok' else spaces.fstr(lib.read(r2[1])))
                elif r2[1] is r1[1]:
                    acc.violation('rewrite-returns-cached-object', case)
        # quoted atom names that print like compound formulas must not be confused with them
        for lg in ('LTL', 'CTLS', 'CTL'):
            Pq = lib.LANGS[lg].Parser()
            for a_text, b_text in (('"p or q" or r', 'p or q or r'), ('not "true"', 'not true'),
                                   ('"p and q" and r', 'p and q and r'), ('"not p" or q', 'not p or q')):
                ra, rb = call(Pq, a_text), call(Pq, b_text)
                if ra[0] != 'ok' or rb[0] != 'ok':
                    continue
                for first, second in ((ra[1], rb[1]), (rb[1], ra[1])):
                    x1 = call(first.get_equivalent_restricted_formula)
                    x2 = call(second.get_equivalent_restricted_formula)
                    acc.ev(1, 1)
                    if x1[0] == 'ok' and x2[0] == 'ok':
                        y2 = call(lib.LANGS[lg].Parser()(b_text if second is rb[1] else a_text).get_equivalent_restricted_formula)
                        if y2[0] == 'ok' and lib.read(x2[1]) != lib.read(y2[1]):
                            acc.violation('rewrite-depends-on-history',
                                          {'logic': lg, 'tree': ['ap', b_text], 'tree_str': b_text,
                                           'history': 'after rewriting %r' % (a_text if second is rb[1] else b_text)},
                                          spaces.fstr(lib.read(y2[1])), spaces.fstr(lib.read(x2[1])))
        return
    if kind == 'deep':
        maps = [{'p': 'False', 'q': 'True'}, {'p': 'True', 'q': 'False', 'r': 'None'}]
        base = deep_shapes()
        for lg in ('LTL', 'CTLS', 'CTL'):
            for f in base:
                check_rewrite_words4(lg, f, acc)
        # temporal operators over constants and over atoms that merely look like constants
        small = spaces.path_by_size(1) + [('R', spaces.F_, spaces.P), ('U', spaces.T, spaces.P),
                                          ('R', spaces.P, spaces.F_), ('G', spaces.F_), ('F', spaces.T)]
        for m in maps:
            for g in small:
                g2 = rename(g, m)
                for lg in ('LTL', 'CTLS'):
                    check_rewrite_words4(lg, g2, acc)
            for f in spaces.ctl_by_size(1):
                check_rewrite_words4('CTL', rename(f, m), acc, state=True)
        acc.sample({'formula': '(((p or q) or r) or s)', 'logic': 'all three'})
        return
    if kind == 'quant':
        sems = [(k, Sem(k)) for k in ks2()]
        gs = spaces.path_by_size(0) + spaces.path_by_size(1) + spaces.nary_path()[::7]
        P, Q = spaces.P, spaces.Q
        forms = [(q, g) for g in gs for q in 'AE']
        forms += [('E', ('X', ('A', ('G', P)))), ('A', ('F', ('E', ('G', Q)))), ('not', ('A', ('G', P))),
                  ('and', ('E', ('F', P)), ('A', ('X', Q))), ('A', ('and', ('F', P), ('G', Q))),
                  ('E', ('and', ('G', ('F', P)), ('X', Q))), ('A', ('or', ('X', P), ('A', ('F', Q)))),
                  ('E', ('U', ('A', ('X', P)), ('E', ('G', Q)))), ('imp', ('A', ('G', ('F', P))), ('E', ('F', ('G', Q)))),
                  ('A', ('R', ('E', ('X', P)), ('imp', P, Q))), ('and', ('A', ('X', P)), ('E', ('X', Q)), ('A', ('G', P)))]
        for j, f in enumerate(forms):
            if deadline_passed():
                acc.capped()
                return
            check_rewrite('CTLS', f, acc, sems, tier, state=True)
            check_lnot('CTLS', f, acc, sems, tier, state=True)
        # LTL state formulas A g: the documented rewriting is defined for every formula of the logic
        for g in spaces.path_by_size(0) + spaces.path_by_size(1):
            check_rewrite('LTL', ('A', g), acc, sems, tier, state=True)
        return
    raise ValueError(shard)


def replay(art):
    from ..runner import Acc
    c = art['case']
    acc = Acc()
    t = spaces.from_jsonable(c['tree'])
    lg = c['logic']
    state = members.STATE[lg](t) and lg != 'LTL' or (lg == 'LTL' and t[0] == 'A')
    if lg == 'CTL':
        sems = [(k, CtlSem(k)) for k in ks2()]
    elif state:
        sems = [(k, Sem(k)) for k in ks2()]
    else:
        sems = None
    if 'history' in c:
        run_shard(['edited'], 'quick', 0, acc)
        return {'violates': acc.d['nviol'] > 0, 'finding': None, 'detail': acc.d['violations'][:1]}
    if c.get('op') == 'LNot':
        check_lnot_single(lg, t, acc, sems, state)
    elif atoms_of(t, set()) - set(['p', 'q']):
        check_rewrite_words4(lg, t, acc, state=(lg == 'CTL' and spaces.has_temporal(t)))
    else:
        check_rewrite(lg, t, acc, sems, 'thorough', state=state)
    fid = sorted(acc.d['findings'])[0] if acc.d['findings'] else None
    return {'violates': acc.d['nviol'] > 0 or fid is not None, 'finding': None if acc.d['nviol'] else fid,
            'detail': acc.d['violations'][:1]}


def check_lnot_single(logic, tn, acc, sems, state):
    """LNot on exactly the recorded (already negated) formula."""
    L = lib.LANGS[logic]
    obj = lib.build(tn, L)
    r = call(lib.CTLS.LNot, obj)
    if r[0] != 'ok':
        acc.violation('lnot-exception', {'tree_str': spaces.fstr(tn)}, None, r[1:])
        return
    t2 = lib.read(r[1])
    want = ('not', tn)
    if t2[0] == 'not' and t2[1][0] == 'not':
        acc.violation('lnot-starts-with-two-negations', {'tree_str': spaces.fstr(tn)}, None, spaces.fstr(t2))
    if state:
        if state_equiv(want, t2, sems) is not None:
            acc.violation('lnot-not-equivalent', {'tree_str': spaces.fstr(tn)}, spaces.fstr(want), spaces.fstr(t2))
    else:
        for a, w in get_words('quick'):
            if path_truth(want, a, w) != path_truth(t2, a, w):
                acc.violation('lnot-not-equivalent', {'tree_str': spaces.fstr(tn)}, spaces.fstr(want), spaces.fstr(t2))
                break
