"""C09  Printing then parsing a formula gives back the same formula; printing is injective.

Alphabet: all formulas of PL, LTL (path and A-rooted), CTL*, CTL (printed in CTL* notation) of
          size<=2, the 3-ary and/or families, same-operator nestings, negation towers, blocks of
          size 3; atom names from a lexer-hostile menu of identifiers.
Oracle  : structural reader (class names, atom names, child order) on Parser()(str(f)); every node of
          the result belongs to the logic; a dict printed-string -> tree per logic must stay a
          function (injectivity).
"""
import itertools

from .. import spaces, lib, members
from ..common import call, chunks
from ..runner import deadline_passed

RULE = ('formulas enumerated by size per logic without repetition (+ n-ary and/or families, nestings '
        'of the same operator, towers of negations, atom-name menu); non-trivial = the formula has '
        'at least two operators or a hostile atom name')
ASSUMPTIONS = ['atom names are identifiers [a-zA-Z_][a-zA-Z_0-9]* that are not reserved words',
               'only documented arities (and/or >= 2 operands)']
BUDGET = {'quick': 600, 'thorough': 3600}
LOGICS = ('PL', 'LTL', 'CTLS', 'CTL')
ATOMS = ['p', 'q', 'x1', '_a', 'Ap', 'AX', 'EG', 'Xp', 'Unot', 'andy', 'U1', 'a_R', 'Req', 'Grant',
         'Go', 'Fp', 'nota', 'truex', 'falsey', 'ore', 'TRUE', 'Not', 'A_', 'E1', 'R2d2', 'XX', 'FG',
         '__', 'p_U_q', 'orb', 'Gp', 'trueA', 'notnot', 'True', 'False', 'AF', 'EX', 'AG', 'EF', 'None',
         'S', 'and_', 'B']
NB3 = 64

_PARSERS = {}


def parser(logic):
    if logic not in _PARSERS:
        _PARSERS[logic] = lib.LANGS[logic].Parser()
    return _PARSERS[logic]


def subst(f, mapping):
    if f[0] == 'ap':
        return ('ap', mapping.get(f[1], f[1]))
    if f[0] in ('t', 'f'):
        return f
    return (f[0],) + tuple(subst(x, mapping) for x in f[1:])


def special_forms(logic):
    """Shapes that stress the printer: same-operator nesting, n-ary, negation towers."""
    P, Q, T = spaces.P, spaces.Q, spaces.T
    R_ = ('ap', 'r')
    out = []
    for op in ('and', 'or'):
        out += [(op, (op, P, Q), R_), (op, P, (op, Q, R_)), (op, P, Q, R_), (op, (op, P, Q, R_), P),
                (op, P, Q, R_, T), (op, (op, P, Q), (op, Q, R_)), (op, P, (op, Q, R_), T)]
        other = 'or' if op == 'and' else 'and'
        out += [(op, (other, P, Q), R_), (op, P, (other, Q, R_, T))]
    out += [('imp', ('imp', P, Q), R_), ('imp', P, ('imp', Q, R_)), ('not', ('not', P)),
            ('not', ('not', ('not', P))), ('not', ('not', ('not', ('not', Q)))),
            ('not', ('and', P, Q)), ('and', ('not', P), Q), ('not', ('imp', P, Q)),
            ('imp', ('not', P), ('not', Q)), ('or', ('not', ('not', P)), Q, ('not', T))]
    if logic == 'PL':
        return out
    if logic in ('LTL', 'CTLS'):
        out2 = list(out)
        out2 += [('not', ('not', ('X', P))), ('X', ('not', ('not', P))), ('U', ('U', P, Q), R_),
                 ('U', P, ('U', Q, R_)), ('R', ('U', P, Q), R_), ('U', P, ('R', Q, R_)),
                 ('G', ('imp', P, ('F', Q))), ('X', ('X', ('X', P))), ('F', ('G', ('F', P))),
                 ('not', ('U', P, Q)), ('U', ('not', P), ('not', Q)), ('and', ('X', P), ('F', Q), ('G', R_)),
                 ('or', ('U', P, Q), ('R', P, Q), T)]
        if logic == 'LTL':
            return out2 + [('A', f) for f in out2]
        out3 = []
        for f in out2:
            out3 += [f, ('A', f), ('E', f), ('not', ('A', f)), ('A', ('not', ('E', f)))]
        out3 += [('A', ('G', ('imp', P, ('A', ('F', Q))))), ('E', ('U', ('A', ('X', P)), ('E', ('G', Q)))),
                 ('and', ('A', ('F', P)), ('E', ('G', Q)), ('not', ('A', ('X', R_))))]
        return out3
    # CTL
    out4 = list(out)
    for f in out:
        for qn in 'AE':
            for tp in 'XFG':
                out4.append((qn, (tp, f)))
    out4 += [('A', ('U', ('A', ('U', P, Q)), R_)), ('E', ('R', P, ('E', ('R', Q, R_)))),
             ('not', ('not', ('A', ('X', P)))), ('A', ('X', ('not', ('not', P)))),
             ('A', ('G', ('imp', P, ('A', ('F', Q))))), ('and', ('A', ('F', P)), ('E', ('G', Q)), R_)]
    return out4


def formulas(logic, size):
    if logic == 'PL':
        return spaces.pl_by_size(size)
    if logic == 'LTL':
        ps = spaces.path_by_size(size)
        return ps + ([('A', g) for g in spaces.path_by_size(size - 1)] if size >= 1 else [])
    if logic == 'CTLS':
        return spaces.ctls_path_by_size(size)
    return spaces.ctl_by_size(size) + ([tp for tp in ctl_paths(size)] if size >= 1 else [])


def ctl_paths(size):
    out = []
    for a in spaces.ctl_by_size(size - 1):
        for tp in 'XFG':
            out.append((tp, a))
    for sa in range(size):
        for a in spaces.ctl_by_size(sa):
            for b in spaces.ctl_by_size(size - 1 - sa):
                out.append(('U', a, b))
                out.append(('R', a, b))
    return out


def nary(logic):
    if logic == 'PL':
        return spaces.nary_props()
    if logic == 'CTL':
        return spaces.nary_ctl()
    if logic == 'LTL':
        return spaces.nary_path()
    return spaces.nary_path() + [('A', f) for f in spaces.nary_path()[::3]]


def scope(tier, seed):
    return {'sizes': 'all formulas of size<=2 per logic', 'families': '3-ary and/or, special printer '
            'shapes', 'atoms': '%d identifier names substituted into all size<=1 formulas (ordered '
            'pairs of names)' % len(ATOMS), 'size 3': 'block %d of %d per logic' % (seed % NB3, NB3)
            if tier == 'quick' else 'blocks seed..seed+7 of %d per logic' % NB3}


def edited_print(logic, acc):
    """History: print / hash a formula, re-initialise a node below the root in place (the documented
    mutator wrap_subformulas through the node's constructor), print again: the new text must parse to
    the new tree."""
    L = lib.LANGS[logic]
    pool = [t for t in formulas(logic, 2) if t[0] not in ('ap', 't', 'f')
            and any(x[0] not in ('ap', 't', 'f') for x in t[1:])][:400]
    repl = ('ap', 'zz')
    for t in pool:
        r0 = call(lib.build, t, L)
        if r0[0] != 'ok':
            continue
        o = r0[1]
        str(o)
        hash(o)
        ci = [i for i, x in enumerate(t[1:]) if x[0] not in ('ap', 't', 'f')][0]
        sub = t[1 + ci]
        node = o._subformula[ci]
        args = [lib.build(repl, L)] + list(node._subformula[1:])
        r = call(lambda: node.__init__(*args))
        if r[0] != 'ok':
            continue
        t2 = t[:1 + ci] + ((sub[0], repl) + tuple(sub[2:]),) + t[2 + ci:]
        rr = call(lib.read, o)
        if rr[0] != 'ok' or rr[1] != t2:
            continue
        acc.ev(1, 1)
        text = str(o.cast_to(lib.CTLS)) if logic == 'CTL' else str(o)
        rp = call(parser(logic), text)
        case = {'logic': logic, 'tree': spaces.to_jsonable(t2), 'tree_str': spaces.fstr(t2), 'printed': text,
                'history': 'printed and hashed as %s, then one operand replaced in place' % spaces.fstr(t)}
        if rp[0] != 'ok' or lib.read(rp[1]) != t2:
            acc.violation('print-stale-after-edit', case, spaces.fstr(t2),
                          rp[1:] if rp[0] != 'ok' else spaces.fstr(lib.read(rp[1])))


def foreign_language_parsers(acc):
    """Parsers created with an explicit language= argument for ANOTHER language first; default parsers
    created afterwards must still produce formulas of their own logic."""
    combos = [('LTL', 'CTLS'), ('PL', 'LTL'), ('CTL', 'CTLS'), ('PL', 'CTLS'), ('CTLS', 'CTLS')]
    for own, other in combos:
        r = call(lambda: lib.LANGS[own].Parser(language=lib.LANGS[other]))
        if r[0] != 'ok':
            continue
        call(r[1], 'p')
        Pd = lib.LANGS[own].Parser()
        for t in formulas(own, 1)[:60]:
            text = str(lib.build(t, lib.LANGS[own]).cast_to(lib.CTLS)) if own == 'CTL' else str(lib.build(t, lib.LANGS[own]))
            rp = call(Pd, text)
            acc.ev(1, 1)
            case = {'logic': own, 'tree': spaces.to_jsonable(t), 'tree_str': spaces.fstr(t), 'printed': text,
                    'history': 'a %s.Parser(language=%s) was created before the default parser' % (own, other)}
            if rp[0] != 'ok' or lib.read(rp[1]) != t:
                acc.violation('roundtrip-differs', case, spaces.fstr(t), rp[1:] if rp[0] != 'ok' else str(rp[1]))
            elif not lib.all_same_lang(rp[1], own):
                acc.violation('parsed-in-another-logic', case, own, lib.lang_of(rp[1]))


def plan(tier, seed):
    sh = []
    sh.append(['foreign'])
    for logic in LOGICS:
        sh.append(['glued', logic])
        sh.append(['edited', logic])
        sh.append(['small', logic])
        for i in range(4):
            sh.append(['size2', logic, i, 4])
        for ai in range(0, len(ATOMS), 3):
            sh.append(['atoms', logic, ai])
        blocks = [seed % NB3] if tier == 'quick' else [(seed + j) % NB3 for j in range(8)]
        for b in blocks:
            sh.append(['size3', logic, b])
    return sh


def glued_pairs(x, y, z):
    """Pairs of different trees whose printed forms differ only in blanks between words: a reserved word
    followed by a name against the atom spelled by gluing them."""
    ap = lambda n: ('ap', n)
    return [(('not', ap(x)), ap('not' + x)),
            (('not', ('not', ap(x))), ('not', ap('not' + x))),
            (('or', ap(x), ap(y), ap(z)), ('or', ap(x + 'or' + y), ap(z))),
            (('and', ap(x), ap(y), ap(z)), ('and', ap(x), ap(y + 'and' + z))),
            (('or', ('not', ap(x)), ap(y)), ('or', ap('not' + x), ap(y))),
            (('imp', ('not', ap(x)), ('not', ap(y))), ('imp', ap('not' + x), ap('not' + y)))]


def glued(logic, acc):
    """Parser()(str(f)) for both members of every glued pair, one after the other in the same process, in
    both orders (fresh atom names per order so that neither text was parsed before), each parse by a
    freshly built Parser() as the statement has it and once more by a shared one."""
    L = lib.LANGS[logic]
    wrap = (lambda t: ('A', t)) if logic == 'LTL' else (lambda t: t)
    for names, flip in ((('a', 'b', 'c'), False), (('d', 'e', 'f'), True), (('p', 'q', 'r'), False)):
        for t1, t2 in glued_pairs(*names):
            seq = [wrap(t2), wrap(t1)] if flip else [wrap(t1), wrap(t2)]
            for fresh in (True, False):
                for t in seq + seq:
                    acc.ev(1, 1)
                    obj = lib.build(t, L)
                    text = str(obj.cast_to(lib.CTLS)) if logic == 'CTL' else str(obj)
                    case = {'logic': logic, 'tree': spaces.to_jsonable(t), 'tree_str': spaces.fstr(t),
                            'printed': text, 'sequence': [spaces.fstr(x) for x in seq], 'fresh_parser': fresh}
                    P = L.Parser() if fresh else parser(logic)
                    rp = call(P, text)
                    if rp[0] != 'ok':
                        acc.violation('printed-form-rejected', case, 'formula', rp[1:])
                        continue
                    rr = call(lib.read, rp[1])
                    if rr[0] != 'ok' or rr[1] != t:
                        acc.violation('roundtrip-differs', case, spaces.fstr(t),
                                      spaces.fstr(rr[1]) if rr[0] == 'ok' else rr[1:])


def roundtrip(logic, t, acc, printed):
    L = lib.LANGS[logic]
    case = {'logic': logic, 'tree': spaces.to_jsonable(t), 'tree_str': spaces.fstr(t)}
    r = call(lib.build, t, L)
    if r[0] != 'ok':
        acc.violation('cannot-construct', case, 'object', r[1:])
        return
    obj = r[1]
    if logic == 'CTL':
        rc = call(obj.cast_to, lib.CTLS)
        if rc[0] != 'ok':
            acc.violation('cast-to-ctls-failed', case, 'object', rc[1:])
            return
        text = str(rc[1])
    else:
        text = str(obj)
    nontriv = 1 if (spaces.size_of(t) >= 2) else 0
    acc.ev(1, nontriv)
    case['printed'] = text
    rp = call(parser(logic), text)
    if rp[0] != 'ok':
        acc.violation('printed-form-rejected', case, 'formula', rp[1:])
    else:
        rr = call(lib.read, rp[1])
        if rr[0] != 'ok' or rr[1] != t:
            acc.violation('roundtrip-differs', case, spaces.fstr(t),
                          spaces.fstr(rr[1]) if rr[0] == 'ok' else rr[1:])
        elif not lib.all_same_lang(rp[1], logic):
            acc.violation('parsed-in-another-logic', case, logic, lib.lang_of(rp[1]))
    # injectivity of the logic's own printer (CTL: both notations)
    for txt in ((text, str(obj)) if logic == 'CTL' else (text,)):
        if txt in printed and printed[txt] != t:
            acc.violation('printing-not-injective', dict(case, printed=txt, other=spaces.fstr(printed[txt])),
                          'distinct strings', txt)
        printed.setdefault(txt, t)


def run_shard(shard, tier, seed, acc):
    if shard[0] == 'foreign':
        foreign_language_parsers(acc)
        return
    if shard[0] == 'edited':
        edited_print(shard[1], acc)
        return
    if shard[0] == 'glued':
        glued(shard[1], acc)
        return
    kind, logic = shard[0], shard[1]
    printed = {}
    if kind == 'small':
        for size in (0, 1):
            for t in formulas(logic, size):
                roundtrip(logic, t, acc, printed)
        for t in nary(logic):
            roundtrip(logic, t, acc, printed)
        for t in special_forms(logic):
            roundtrip(logic, t, acc, printed)
        # cross-size injectivity: everything of size<=2 in one table
        for t in formulas(logic, 2):
            r = call(lambda: str(lib.build(t, lib.LANGS[logic])))
            if r[0] == 'ok':
                if r[1] in printed and printed[r[1]] != t:
                    acc.violation('printing-not-injective',
                                  {'logic': logic, 'tree': spaces.to_jsonable(t), 'tree_str': spaces.fstr(t),
                                   'printed': r[1], 'other': spaces.fstr(printed[r[1]])},
                                  'distinct strings', r[1])
                printed.setdefault(r[1], t)
        acc.sample({'logic': logic, 'tree': spaces.fstr(special_forms(logic)[0])})
        return
    if kind == 'size2':
        for i, t in enumerate(formulas(logic, 2)):
            if i % shard[3] != shard[2]:
                continue
            roundtrip(logic, t, acc, printed)
        return
    if kind == 'atoms':
        base = formulas(logic, 1)
        for a in ATOMS[shard[2]:shard[2] + 3]:
            for b in ATOMS:
                if deadline_passed():
                    acc.capped()
                    return
                for t in base:
                    t2 = subst(t, {'p': a, 'q': b})
                    roundtrip(logic, t2, acc, printed)
        acc.sample({'logic': logic, 'tree': spaces.fstr(subst(base[-1], {'p': 'Req', 'q': 'Grant'}))})
        return
    if kind == 'size3':
        gen = {'PL': lambda: spaces.pl_by_size(3), 'LTL': lambda: spaces.path_iter_size(3),
               'CTLS': lambda: spaces.ctls_path_by_size(3), 'CTL': lambda: spaces.ctl_iter_size(3)}[logic]()
        for i, t in enumerate(gen):
            if i % NB3 != shard[2]:
                continue
            if i % 4096 == shard[2] and deadline_passed():
                acc.capped()
                return
            roundtrip(logic, t, acc, printed)
            if logic == 'LTL' and i % (NB3 * 4) == shard[2]:
                roundtrip(logic, ('A', t), acc, printed)
        return
    raise ValueError(shard)


def replay(art):
    from ..runner import Acc
    c = art['case']
    acc = Acc()
    printed = {}
    t = spaces.from_jsonable(c['tree'])
    if 'sequence' in c:
        glued(c['logic'], acc)
        return {'violates': acc.d['nviol'] > 0, 'detail': acc.d['violations'][:1]}
    if 'history' in c:
        if 'Parser(language' in c['history']:
            foreign_language_parsers(acc)
        else:
            edited_print(c['logic'], acc)
        return {'violates': acc.d['nviol'] > 0, 'detail': acc.d['violations'][:1]}
    if art['kind'] == 'printing-not-injective':
        L = lib.LANGS[c['logic']]
        # find the other tree by re-enumerating is costly: re-print both sides instead
        other = None
        for cand in special_forms(c['logic']) + nary(c['logic']) + formulas(c['logic'], 0) + \
                formulas(c['logic'], 1) + formulas(c['logic'], 2):
            if spaces.fstr(cand) == c['other']:
                other = cand
                break
        if other is None:
            return {'violates': False, 'note': 'other tree not found'}
        s1, s2 = str(lib.build(t, L)), str(lib.build(other, L))
        if c['logic'] == 'CTL' and s1 != s2:
            s1, s2 = str(lib.build(t, L).cast_to(lib.CTLS)), str(lib.build(other, L).cast_to(lib.CTLS))
        return {'violates': s1 == s2 and other != t, 'printed': [s1, s2]}
    roundtrip(c['logic'], t, acc, printed)
    return {'violates': acc.d['nviol'] > 0, 'detail': acc.d['violations'][:1]}
