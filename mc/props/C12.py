"""C12  Strongly connected components are computed exactly.

Alphabet: every labelled digraph on n<=4 nodes (5 in thorough), every node insertion order,
every renaming (n<=3), every per-node successor iteration order (n<=3, n=4 in thorough).
Oracle  : the yielded components partition V and coincide with mutual reachability (Warshall).
"""
import itertools

from .. import spaces
from ..refsem import closure
from ..orders import set_successor_orders
from ..common import call, chunks
from ..runner import deadline_passed

from pyModelChecking.graph import DiGraph, compute_SCCs

RULE = ('all digraphs on n nodes by edge bitmask x node insertion orders x renamings x successor '
        'iteration orders, no repetition; non-trivial = the graph has a component with >=2 nodes '
        'and at least 2 components')
ASSUMPTIONS = ['reference: Warshall transitive closure, components = mutual reachability classes',
               'successor iteration order is controlled by replacing adjacency sets of the built '
               'graph with order-preserving set subclasses']
BUDGET = {'quick': 600, 'thorough': 3600}

NAMES = {'str': lambda i: 's%d' % i, 'tup': lambda i: (i, 'x'), 'spaced': lambda i: (8, 1, 17, 40, 3)[i],
         'mixed': lambda i: (None, 'x', (2,), 0, 2.5)[i], 'fsets': lambda i: frozenset([i, 'k']),
         'falsy': lambda i: (0, '', (), frozenset(), False)[i] if i < 4 else 4}


def scope(tier, seed):
    hist = ('histories: every sequence of %d operations (compute_SCCs, add_edge over all pairs, add_node, '
            'edges to/from a new node) ending in compute_SCCs, from 7 initial graphs, on one graph object '
            'against a set model' % (4 if tier == 'quick' else 5))
    if tier == 'quick':
        return {'histories': hist, 'n<=3': 'all 530 digraphs x all n! insertion orders x all n! renamings + 3 naming '
                        'schemes + every successor-order assignment',
                'n=5': 'block %d of 16 of the 33.5M digraphs, identity and reversed insertion order' % (seed % 16),
                'n=4': 'all 65536 digraphs x all 24 insertion orders; every successor-order '
                       'assignment of the digraphs in block %d of 8 (block = top 3 bits of mask*0x9E3779B1 mod 2^32)' % (seed % 8)}
    return {'histories': hist, 'n<=3': 'as quick', 'n=4': 'all 65536 digraphs x all 24 insertion orders, and every '
            'successor-order assignment (17.8M)', 'n=5': 'all 33,554,432 digraphs, default order'}


def hist_ops(n):
    ops = [('scc',)]
    for a in range(n):
        for b in range(n):
            ops.append(('add_edge', a, b))
    ops.append(('add_node', n))
    ops.append(('add_edge', n, 0))
    ops.append(('add_edge', 1, n))
    return ops


def run_hist(n, init, hist, acc):
    """Operation history on ONE graph object: mutators and compute_SCCs, against a set model."""
    G = DiGraph(V=list(range(n)), E=list(init))
    V = set(range(n))
    E = set(init)
    for step, op in enumerate(hist):
        if op[0] == 'scc':
            res = call(lambda: [list(c) for c in compute_SCCs(G)])
            m = max(V) + 1
            refc = set(c for c in ref_classes(m, sorted(E)) if c <= V)
            acc.add('transitions')
            bad = res[0] != 'ok'
            if not bad:
                flat = [x for c in res[1] for x in c]
                bad = sorted(flat) != sorted(V) or set(frozenset(c) for c in res[1]) != refc
            if bad:
                acc.violation('wrong-components-in-history',
                              {'n': n, 'init': [list(e) for e in init], 'history': [list(o) for o in hist],
                               'step': step}, sorted(sorted(c) for c in refc), res[1:])
                return False
        elif op[0] == 'add_edge':
            if (op[1], op[2]) in E:
                continue
            r = call(G.add_edge, op[1], op[2])
            if r[0] != 'ok':
                return True
            E.add((op[1], op[2]))
            V.add(op[1])
            V.add(op[2])
        else:
            if op[1] in V:
                continue
            call(G.add_node, op[1])
            V.add(op[1])
    return True


def plan(tier, seed):
    sh = [['small']]
    for i in range(12):
        sh.append(['hist', i, 12, 4 if tier == 'quick' else 5])
    if tier == 'quick':
        for lo, hi in chunks(65536, 1024):
            sh.append(['n4', lo, hi, 'all'])
        for lo, hi in chunks(65536, 1024):
            sh.append(['n4succ', lo, hi, seed % 8])
        for lo, hi in chunks(1 << 25, 1 << 19):
            sh.append(['n5', lo, hi, seed % 16])
    else:
        for lo, hi in chunks(65536, 512):
            sh.append(['n4', lo, hi, 'all'])
        for lo, hi in chunks(65536, 256):
            sh.append(['n4succ', lo, hi, None])
        for lo, hi in chunks(1 << 25, 1 << 16):
            sh.append(['n5', lo, hi, None])
    return sh


def ref_classes(n, edges):
    r = closure(n, edges)
    cls = set()
    for i in range(n):
        cls.add(frozenset(j for j in range(n) if j == i or (r[i][j] and r[j][i])))
    return cls


def check(n, edges, order, name, acc, succ_orders=None, refc=None):
    """order: insertion order of nodes (list of ints); name: int -> node object."""
    V = [name(i) for i in order]
    E = [(name(a), name(b)) for (a, b) in edges]
    G = DiGraph(V=V, E=E)
    if succ_orders is not None:
        set_successor_orders(G, dict((name(v), [name(w) for w in o]) for v, o in succ_orders.items()))
    res = call(lambda: [list(c) for c in compute_SCCs(G)])
    if refc is None:
        refc = ref_classes(n, edges)
    if n <= 3 or succ_orders is None:
        # a consumer that owns what it is handed: it empties every yielded component at once
        def draining():
            out = []
            for c in compute_SCCs(G):
                out.append(list(c))
                try:
                    del c[:]
                except TypeError:
                    pass
            return out
        res_d = call(draining)
        if res_d != res:
            acc.violation('mutating-a-yielded-component-changes-later-ones',
                          {'n': n, 'edges': [list(e) for e in edges], 'order': list(order),
                           'names': [repr(name(i)) for i in range(n)], 'succ_orders': None},
                          res[1:] if res[0] == 'ok' else res, res_d[1:] if res_d[0] == 'ok' else res_d)
    nontriv = 1 if (len(refc) >= 2 and any(len(c) >= 2 for c in refc)) else 0
    acc.ev(1, nontriv)
    case = {'n': n, 'edges': [list(e) for e in edges], 'order': list(order),
            'names': [repr(name(i)) for i in range(n)],
            'succ_orders': None if succ_orders is None else
            dict((str(k), list(v)) for k, v in succ_orders.items())}
    if res[0] != 'ok':
        acc.violation('exception', case, 'components', res[1:])
        return
    comps = res[1]
    inv = dict((name(i), i) for i in range(n))
    flat = [x for c in comps for x in c]
    try:
        got = set(frozenset(inv[x] for x in c) for c in comps)
        bad = sorted(flat, key=repr) != sorted(V, key=repr) or got != refc
    except Exception:
        bad = True
        got = None
    if bad:
        acc.violation('wrong-components', case, sorted(sorted(c) for c in refc),
                      [[repr(x) for x in c] for c in comps])


def succ_order_assignments(n, edges):
    succ = dict((i, [b for (a, b) in edges if a == i]) for i in range(n))
    keys = [i for i in range(n) if len(succ[i]) >= 1]
    for combo in itertools.product(*[list(itertools.permutations(succ[i])) for i in keys]):
        yield dict(zip(keys, combo))


def ident(i):
    return i


def run_shard(shard, tier, seed, acc):
    kind = shard[0]
    if kind == 'small':
        for n in (0, 1, 2, 3):
            for edges in spaces.digraphs(n):
                refc = ref_classes(n, edges)
                for order in itertools.permutations(range(n)):
                    for perm in itertools.permutations(range(n)):
                        check(n, edges, order, (lambda i, perm=perm: perm[i]), acc, refc=refc)
                    for nm in sorted(NAMES):
                        check(n, edges, order, NAMES[nm], acc, refc=refc)
                for so in succ_order_assignments(n, edges):
                    check(n, edges, range(n), ident, acc, succ_orders=so, refc=refc)
                    check(n, edges, list(reversed(range(n))), ident, acc, succ_orders=so, refc=refc)
                    acc.add('successor_order_schedules', 2)
        acc.sample({'n': 3, 'edges': [[0, 1], [1, 0], [1, 2]], 'insertion_order': [2, 0, 1],
                    'renaming': [1, 2, 0]})
        return
    if kind == 'hist':
        inits = [(3, ()), (3, ((0, 1),)), (3, ((0, 1), (1, 2))), (3, ((0, 1), (1, 0))), (2, ((0, 1),)),
                 (3, ((0, 1), (1, 2), (2, 1))), (3, ((0, 0), (1, 2)))]
        depth = shard[3]
        cnt = 0
        for n, init in inits:
            ops = hist_ops(n)
            for hist in itertools.product(ops, repeat=depth):
                # every history must query at least once after a mutation to be informative
                cnt += 1
                if cnt % shard[2] != shard[1]:
                    continue
                if hist[-1][0] != 'scc':
                    continue
                if cnt % 4096 == shard[1] and deadline_passed():
                    acc.capped()
                    return
                run_hist(n, init, hist, acc)
                acc.ev(1, 1 if any(o[0] == 'scc' for o in hist[:-1]) else 0)
        acc.sample({'init': [[0, 1], [1, 2]], 'history': [['scc'], ['add_edge', 2, 0], ['scc']]})
        return
    if kind == 'n4':
        if shard[3] == 'few':
            orders = [[0, 1, 2, 3], [3, 2, 1, 0], [1, 2, 3, 0], [2, 3, 0, 1], [3, 0, 1, 2]]
        else:
            orders = list(itertools.permutations(range(4)))
        for mask in range(shard[1], shard[2]):
            if mask % 512 == 0 and deadline_passed():
                acc.capped()
                return
            edges = spaces.digraph_from_mask(4, mask)
            refc = ref_classes(4, edges)
            for order in orders:
                check(4, edges, order, ident, acc, refc=refc)
        acc.sample({'n': 4, 'edge_mask': shard[1], 'orders': len(orders)})
        return
    if kind == 'n4succ':
        for mask in range(shard[1], shard[2]):
            if shard[3] is not None and ((mask * 0x9E3779B1) % (1 << 32)) >> 29 != shard[3]:
                continue
            if deadline_passed():
                acc.capped()
                return
            edges = spaces.digraph_from_mask(4, mask)
            refc = ref_classes(4, edges)
            for so in succ_order_assignments(4, edges):
                check(4, edges, range(4), ident, acc, succ_orders=so, refc=refc)
                acc.add('successor_order_schedules', 1)
        return
    if kind == 'n5':
        for mask in range(shard[1], shard[2]):
            if shard[3] is not None and ((mask * 0x9E3779B1) % (1 << 32)) >> 28 != shard[3]:
                continue
            if mask % 4096 == 0 and deadline_passed():
                acc.capped()
                return
            edges = spaces.digraph_from_mask(5, mask)
            check(5, edges, range(5), ident, acc)
            if shard[3] is not None:
                check(5, edges, [4, 3, 2, 1, 0], ident, acc)
        return
    raise ValueError(shard)


def replay(art):
    from ..runner import Acc
    c = art['case']
    if 'history' in c:
        acc = Acc()
        run_hist(c['n'], [tuple(e) for e in c['init']], [tuple(o) for o in c['history']], acc)
        return {'violates': acc.d['nviol'] > 0, 'detail': acc.d['violations'][:1]}
    names = c['names']
    n = c['n']
    edges = [tuple(e) for e in c['edges']]

    def name(i):
        return eval(names[i])
    so = c.get('succ_orders')
    if so is not None:
        so = dict((int(k), v) for k, v in so.items())
    acc = Acc()
    check(n, edges, c['order'], name, acc, succ_orders=so)
    return {'violates': acc.d['nviol'] > 0, 'detail': acc.d['violations']}
