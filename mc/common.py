"""Helpers shared by the property modules."""
from . import spaces
from .refsem import Sem, is_state
from .runner import deadline_passed


def call(fn, *args, **kw):
    """Run library code; never let an exception escape into the harness."""
    try:
        return ('ok', fn(*args, **kw))
    except Exception as e:   # noqa
        return ('exc', type(e).__name__, str(e)[:200])


def as_state_set(res):
    """Normalise an ('ok', value) result to a sorted list, or describe the failure."""
    if res[0] != 'ok':
        return ('exc', res[1], res[2])
    v = res[1]
    try:
        return ('set', sorted(v))
    except Exception:
        return ('set', sorted(v, key=repr))


def kcase(k, f=None, **more):
    d = {'k': k.to_json()}
    if f is not None:
        d['f'] = spaces.to_jsonable(f)
        d['f_str'] = spaces.fstr(f)
    d.update(more)
    return d


def certify_quantified(sem, f, impl_set, acc):
    """For a top-level A/E formula: certify the reference verdicts that have a
    lasso certificate and count them as model traces validated against the
    implementation's verdict.  Returns list of (state, stem, loop, impl_agrees)."""
    op = f[0]
    if op not in ('A', 'E'):
        return
    g = f[1] if op == 'E' else ('not', f[1])
    for s in sorted(sem.exists(g)):
        w = sem.witness(g, s)
        if w is None:
            acc.harness_error('no witness for %r at %d' % (g, s))
            continue
        stem, loop = w
        word = stem + loop
        if word[0] != s or not sem.lasso_is_path(stem, loop) or not sem.lasso_is_fair(loop):
            acc.harness_error('bad witness lasso %r %r for %r at %d' % (stem, loop, g, s))
            continue
        if not sem.lasso_holds(g, stem, loop):
            acc.harness_error('reference audit: witness %r.%r^w does not satisfy %r (K=%r)'
                              % (stem, loop, g, sem.k))
            continue
        acc.add('traces')


def sweep_negative(sem, f, acc, max_stem, max_loop):
    """Audit of the reference for the states it says have NO path satisfying g:
    enumerate every lasso within the bound and require the literal evaluator to
    reject each of them."""
    from .refsem import lassos_from
    op = f[0]
    if op not in ('A', 'E'):
        return
    g = f[1] if op == 'E' else ('not', f[1])
    yes = sem.exists(g)
    for s in range(sem.k.n):
        if s in yes:
            continue
        for stem, loop in lassos_from(sem.k, s, max_stem, max_loop):
            if not sem.lasso_is_fair(loop):
                continue
            acc.add('lassos_swept')
            if sem.lasso_holds(g, stem, loop):
                acc.harness_error('reference audit: lasso %r.%r^w satisfies %r but product says no '
                                  'path from %d (K=%r)' % (stem, loop, g, s, sem.k))
                return


def chunks(n, size):
    return [(i, min(n, i + size)) for i in range(0, n, size)]
