"""CLI runner: shards a property's bounded space over worker processes, merges the
counters, writes evidence, applies the known-findings list and prints verdict lines.

  python -m mc.runner C01 --tier quick
  python -m mc.runner C01 --replay replays/C01/0.json
"""
import argparse
import importlib
import io
import json
import multiprocessing
import os
import subprocess
import sys
import time
import traceback

ROOT = os.path.dirname(os.path.dirname(os.path.abspath(__file__)))
MAX_REPLAY_FILES = 5


class Acc(object):
    """Per-shard accumulator handed to property code."""

    def __init__(self):
        self.d = {'evaluations': 0, 'nontrivial': 0, 'states': 0, 'transitions': 0,
                  'traces': 0, 'extra': {}, 'samples': [], 'violations': [],
                  'findings': {}, 'harness_errors': [], 'capped': False, 'nviol': 0}

    def ev(self, n=1, nontrivial=0):
        self.d['evaluations'] += n
        self.d['nontrivial'] += nontrivial

    def add(self, key, n=1):
        if key in ('states', 'transitions', 'traces'):
            self.d[key] += n
        else:
            self.d['extra'][key] = self.d['extra'].get(key, 0) + n

    def sample(self, s):
        if len(self.d['samples']) < 2:
            self.d['samples'].append(s)

    def violation(self, kind, case, expected=None, got=None):
        self.d['nviol'] += 1
        if len(self.d['violations']) < 5:
            self.d['violations'].append({'kind': kind, 'case': jsonable(case),
                                         'expected': jsonable(expected), 'got': jsonable(got)})

    def finding(self, fid, case, expected=None, got=None):
        f = self.d['findings'].setdefault(fid, {'count': 0, 'example': None})
        f['count'] += 1
        if f['example'] is None:
            f['example'] = {'kind': 'finding:' + fid, 'case': jsonable(case),
                            'expected': jsonable(expected), 'got': jsonable(got)}

    def harness_error(self, msg):
        if len(self.d['harness_errors']) < 5:
            self.d['harness_errors'].append(msg)

    def capped(self):
        self.d['capped'] = True


_DEADLINE = [None]


def deadline_passed():
    return _DEADLINE[0] is not None and time.time() > _DEADLINE[0]


def _worker_init(deadline):
    _DEADLINE[0] = deadline
    # library prints (CTLS.modelcheck prints caught TypeErrors): keep them out of our stdout
    sys.stdout = io.StringIO()


_HISTORY = []


def _run_shard(args):
    prop_id, tier, seed, shard = args
    earlier = list(_HISTORY)
    _HISTORY.append(shard)
    try:
        mod = importlib.import_module('mc.props.' + prop_id)
        acc = Acc()
        if isinstance(sys.stdout, io.StringIO):
            sys.stdout.seek(0)
            sys.stdout.truncate()
        mod.run_shard(shard, tier, seed, acc)
        for v in acc.d['violations']:
            v['shard'] = shard
            v['tier'] = tier
            v['seed'] = seed
            v['worker_history'] = earlier
        for f in acc.d['findings'].values():
            if f['example'] is not None:
                f['example']['shard'] = shard
                f['example']['tier'] = tier
                f['example']['seed'] = seed
        return acc.d
    except Exception:
        acc = Acc()
        acc.harness_error('shard %r crashed: %s' % (shard, traceback.format_exc()))
        return acc.d


def load_known():
    path = os.path.join(ROOT, 'known_findings.json')
    if not os.path.exists(path):
        return {'findings': [], 'fixed': []}
    with open(path) as fh:
        return json.load(fh)


def repo_state():
    try:
        repo = os.environ.get('VERIF_REPO') or '/repo'
        head = subprocess.check_output(['git', '-C', repo, 'rev-parse', 'HEAD'],
                                       stderr=subprocess.DEVNULL).decode().strip()
        dirty = bool(subprocess.check_output(['git', '-C', repo, 'status', '--porcelain',
                                              '--untracked-files=no'],
                                             stderr=subprocess.DEVNULL).decode().strip())
    except Exception:
        head, dirty = 'unknown', False
    return head, dirty


def jsonable(x):
    if isinstance(x, (set, frozenset)):
        return sorted((jsonable(y) for y in x), key=repr)
    if isinstance(x, (list, tuple)):
        return [jsonable(y) for y in x]
    if isinstance(x, dict):
        return dict((str(k), jsonable(v)) for k, v in x.items())
    if isinstance(x, (int, float, str, bool)) or x is None:
        return x
    try:
        return repr(x)[:400]
    except Exception:
        return '<unprintable %s>' % type(x).__name__


def _replay_stage(mod, art, stage):
    """Run one replay stage in THIS (fresh) process and return the observation dict."""
    if stage == 'case':
        return mod.replay(art)
    tier, seed = art.get('tier', 'quick'), art.get('seed', 0)
    if stage == 'history':
        for sh in art.get('worker_history') or []:
            mod.run_shard(sh, tier, seed, Acc())
    acc = Acc()
    mod.run_shard(art['shard'], tier, seed, acc)
    want = json.dumps(jsonable(art.get('case')), sort_keys=True)
    hits = [v for v in acc.d['violations']
            if json.dumps(jsonable(v['case']), sort_keys=True) == want
            and v['kind'] == art.get('kind')]
    if hits:
        return {'violates': True, 'history_dependent': True, 'stage': stage,
                'note': 'reproduces only after the preceding calls of its shard / worker (state '
                        'leaking between calls); replayed by re-running that call history',
                'expected': hits[0].get('expected'), 'got': hits[0].get('got')}
    return {'violates': False, 'stage': stage}


def do_replay(mod, prop_id, path, stage=None):
    with open(path) as fh:
        art = json.load(fh)
    from . import lib
    lib.assert_repo_import()
    real_stdout = sys.stdout
    sys.stdout = io.StringIO()
    try:
        res = _replay_stage(mod, art, stage or 'case')
    finally:
        sys.stdout = real_stdout
    if stage is not None:
        print('STAGE-RESULT %s' % json.dumps(jsonable(res), sort_keys=True))
        return 0
    if not res.get('violates') and art.get('shard') is not None \
            and not str(art.get('kind', '')).startswith('finding:'):
        # clean in isolation: replay the call history (each stage in its own fresh interpreter)
        for st in ('shard', 'history'):
            if st == 'history' and not art.get('worker_history'):
                continue
            p = subprocess.run([sys.executable, '-m', 'mc.runner', prop_id, '--replay', path,
                                '--stage', st], cwd=ROOT, stdout=subprocess.PIPE,
                               stderr=subprocess.PIPE, env=dict(os.environ, PYTHONHASHSEED='0'))
            lines = [l for l in p.stdout.decode().splitlines() if l.startswith('STAGE-RESULT ')]
            if lines:
                r2 = json.loads(lines[-1][len('STAGE-RESULT '):])
                if r2.get('violates'):
                    res = r2
                    break
    known = set(f['id'] for f in load_known()['findings']
                if f.get('status') == 'known' and f.get('property') == prop_id)
    print('REPLAY property=%s kind=%s' % (prop_id, art.get('kind')))
    print('CASE %s' % json.dumps(art.get('case'), sort_keys=True))
    print('OBSERVED %s' % json.dumps(jsonable(res), sort_keys=True))
    if res.get('violates'):
        fid = res.get('finding')
        if fid is not None and fid in known:
            print('KNOWN-FINDING: property=%s %s (replayed)' % (prop_id, fid))
            return 0
        print('VIOLATION property=%s replay=%s' % (prop_id, path))
        return 1
    print('no violation on replay')
    return 0


def confirm(prop_id, path, attempts=3):
    """Replay in fresh interpreters (each attempt includes the history stages) until the violation
    reproduces.  Returns (reproduced, attempts_made, observations)."""
    outs = []
    for i in range(attempts):
        p = subprocess.run([sys.executable, '-m', 'mc.runner', prop_id, '--replay', path],
                           cwd=ROOT, stdout=subprocess.PIPE, stderr=subprocess.PIPE,
                           env=dict(os.environ, PYTHONHASHSEED='0'))
        obs = [l for l in p.stdout.decode().splitlines() if l.startswith('OBSERVED')]
        outs.append((p.returncode, obs))
        if p.returncode == 1 and i >= 1:
            break
    n = sum(1 for rc, _ in outs if rc == 1)
    return n, len(outs), outs


def main(argv=None):
    ap = argparse.ArgumentParser()
    ap.add_argument('prop')
    ap.add_argument('--tier', default=os.environ.get('VERIF_TIER') or 'quick')
    ap.add_argument('--replay')
    ap.add_argument('--stage', choices=['case', 'shard', 'history'])
    ap.add_argument('--workers', type=int, default=int(os.environ.get('VERIF_WORKERS', '0')))
    ap.add_argument('--budget', type=float, default=float(os.environ.get('VERIF_BUDGET_S', '0')))
    a = ap.parse_args(argv)
    prop_id = a.prop
    mod = importlib.import_module('mc.props.' + prop_id)
    if a.replay:
        return do_replay(mod, prop_id, a.replay, a.stage)

    tier = a.tier if a.tier in ('quick', 'thorough') else 'quick'
    try:
        seed = int(os.environ.get('VERIF_SEED', '0') or 0)
    except ValueError:
        seed = 0
    from . import lib
    lib_path = lib.assert_repo_import()
    head, dirty = repo_state()
    t0 = time.time()
    budget = a.budget or getattr(mod, 'BUDGET', {}).get(tier, 0)
    deadline = (t0 + budget) if budget else None
    shards = mod.plan(tier, seed)
    nworkers = a.workers or os.cpu_count() or 4
    os.environ['PYTHONHASHSEED'] = '0'
    ctx = multiprocessing.get_context('spawn')
    total = Acc().d
    jobs = [(prop_id, tier, seed, sh) for sh in shards]
    with ctx.Pool(nworkers, initializer=_worker_init, initargs=(deadline,)) as pool:
        for d in pool.imap_unordered(_run_shard, jobs, chunksize=1):
            for key in ('evaluations', 'nontrivial', 'states', 'transitions', 'traces', 'nviol'):
                total[key] += d[key]
            for kx, vx in d['extra'].items():
                total['extra'][kx] = total['extra'].get(kx, 0) + vx
            for s in d['samples']:
                if len(total['samples']) < 6:
                    total['samples'].append(s)
            for v in d['violations']:
                if len(total['violations']) < 20:
                    total['violations'].append(v)
            for fid, f in d['findings'].items():
                g = total['findings'].setdefault(fid, {'count': 0, 'example': None})
                g['count'] += f['count']
                if g['example'] is None:
                    g['example'] = f['example']
            total['harness_errors'].extend(d['harness_errors'])
            total['capped'] = total['capped'] or d['capped']
    wall = time.time() - t0

    known = load_known()
    known_here = dict((f['id'], f) for f in known['findings']
                      if f.get('status') == 'known' and f.get('property') == prop_id)
    # findings not listed are violations
    viols = list(total['violations'])
    for fid, f in sorted(total['findings'].items()):
        if fid not in known_here:
            viols.insert(0, f['example'])
            total['nviol'] += f['count']

    rdir = os.path.join(ROOT, 'replays', prop_id)
    if os.path.isdir(rdir):
        for fn in os.listdir(rdir):
            if fn.startswith(tier + '_'):
                os.remove(os.path.join(rdir, fn))
    vlines = []
    harness_errors = list(total['harness_errors'])
    if viols:
        os.makedirs(rdir, exist_ok=True)
        for i, v in enumerate(viols[:MAX_REPLAY_FILES]):
            path = os.path.join(rdir, '%s_%d.json' % (tier, i))
            art = dict(v)
            art['property'] = prop_id
            art['repo_head'] = head
            art['repo_dirty'] = dirty
            art = jsonable(art)
            with open(path, 'w') as fh:
                json.dump(art, fh, indent=1, sort_keys=True)
            nrep, natt, outs = confirm(prop_id, path)
            art['replay_reproduced'] = '%d of %d fresh-process replays' % (nrep, natt)
            if nrep < natt:
                # the oracle failed on the real objects during exploration, so this is reported;
                # an execution that does not reproduce in every fresh process depends on state the
                # harness does not own (object addresses, allocator reuse) - say so in the artefact
                art['note'] = ('violation observed during exploration; replay reproduced it in %d '
                               'of %d fresh processes (address- or allocation-dependent behaviour '
                               'of the code under test)' % (nrep, natt))
            with open(path, 'w') as fh:
                json.dump(art, fh, indent=1, sort_keys=True)
            vlines.append('VIOLATION property=%s replay=%s%s' % (
                prop_id, path, '' if nrep == natt else ' (replay reproduced %d/%d)' % (nrep, natt)))

    cov = {
        'evaluations': total['evaluations'],
        'distinct_nontrivial': total['nontrivial'],
        'rule': getattr(mod, 'RULE', ''),
        'samples': jsonable(total['samples']) or ['(none)'],
        'exhaustive': (not total['capped']) and not harness_errors,
        'scope': jsonable(mod.scope(tier, seed)) if hasattr(mod, 'scope') else None,
        'shards': len(shards),
        'extra': total['extra'],
        'known_findings_observed': dict((fid, f['count']) for fid, f in total['findings'].items()),
        'repo_head': head, 'repo_dirty': dirty, 'library_path': lib_path,
        'capped': total['capped'],
    }
    if total['states'] and total['transitions']:
        cov['states'] = total['states']
        cov['transitions'] = total['transitions']
        cov['traces_validated_against_impl'] = total['traces']
    ev = {'property_id': prop_id, 'tier': tier, 'seed': seed, 'level': 'model_checking',
          'coverage': cov, 'assumptions': list(getattr(mod, 'ASSUMPTIONS', [])),
          'wall_s': round(wall, 3), 'violations': total['nviol']}
    os.makedirs(os.path.join(ROOT, 'evidence'), exist_ok=True)
    with open(os.path.join(ROOT, 'evidence', prop_id + '.json'), 'w') as fh:
        json.dump(ev, fh, indent=1, sort_keys=True)

    print('%s tier=%s seed=%d evaluations=%d nontrivial=%d states=%d transitions=%d traces=%d '
          'wall=%.1fs shards=%d capped=%s' % (prop_id, tier, seed, total['evaluations'],
                                             total['nontrivial'], total['states'],
                                             total['transitions'], total['traces'], wall,
                                             len(shards), total['capped']))
    if total['extra']:
        print('extra: %s' % json.dumps(total['extra'], sort_keys=True))
    for fid, f in sorted(known_here.items()):
        n = total['findings'].get(fid, {}).get('count', 0)
        print('KNOWN-FINDING: property=%s %s %s [observed on %d cases this run]'
              % (prop_id, fid, f.get('what', ''), n))
    for l in vlines:
        print(l)
    if harness_errors:
        for h in harness_errors[:5]:
            print('HARNESS-ERROR: %s' % h, file=sys.stderr)
        return 2
    if vlines:
        return 1
    if total['nviol']:
        print('HARNESS-ERROR: violations counted but none reproduced', file=sys.stderr)
        return 2
    return 0


if __name__ == '__main__':
    sys.exit(main())
