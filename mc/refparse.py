"""Independent recognisers for the four documented grammars (the `grammar` attribute of each
Parser class, which the documentation names as the complete description), over token lists.

Tokens: 'true' 'false' 'not' 'and' 'or' '-->' 'A' 'E' 'X' 'F' 'G' 'U' 'R' '(' ')' and identifiers.
Synonyms (~ & |) are normalised by tokenize().  The grammars' atom rule is the regular expression
[a-zA-Z_][a-zA-Z_0-9]*, which also matches the keywords, so a keyword MAY be read as an atom
(Lark's contextual lexer does exactly that where no keyword is expected); the recognisers are
therefore nondeterministic on keywords.  Each recogniser returns True iff SOME derivation exists.
"""
import re

KEYWORDS = {'true', 'false', 'not', 'and', 'or', '-->', 'A', 'E', 'X', 'F', 'G', 'U', 'R'}
SYN = {'~': 'not', '&': 'and', '|': 'or'}
IDENT = re.compile(r'[a-zA-Z_][a-zA-Z_0-9]*\Z')
TOKEN = re.compile(r'\s*(-->|[()~&|]|[a-zA-Z_][a-zA-Z_0-9]*|"(?:[^"\\]|\\.)*")')


def tokenize(s):
    """Token list of s, or None if s contains something that is no token at all."""
    out = []
    i = 0
    n = len(s)
    while True:
        while i < n and s[i] in ' \t\r\n\f':
            i += 1
        if i >= n:
            return out
        m = TOKEN.match(s, i)
        if not m or m.start(1) != i:
            return None
        tok = m.group(1)
        out.append(SYN.get(tok, tok))
        i = m.end()


def is_atom_token(tok, logic):
    if tok.startswith('"'):
        return True
    if not IDENT.match(tok):
        return False
    return True     # keywords included: nondeterministic reading


class Rec(object):
    """Backtracking recogniser: every nonterminal maps a start index to the set of end indices."""

    def __init__(self, toks, logic):
        self.t = toks
        self.n = len(toks)
        self.logic = logic
        self.memo = {}

    def tok(self, i, s):
        return i < self.n and self.t[i] == s

    def leaf(self, i):
        """true | false | atom"""
        out = set()
        if i < self.n:
            t = self.t[i]
            if t in ('true', 'false') or is_atom_token(t, self.logic):
                out.add(i + 1)
        return out

    def call(self, name, i):
        key = (name, i)
        if key in self.memo:
            return self.memo[key]
        self.memo[key] = set()      # cut left recursion (none expected)
        r = getattr(self, name)(i)
        self.memo[key] = r
        return r

    def seq_bin(self, operand, i, ops_multi, ops_single):
        """operand | operand (op operand)+ for op in ops_multi | operand op operand for op in ops_single"""
        out = set()
        for j in self.call(operand, i):
            out.add(j)
            if j < self.n:
                op = self.t[j]
                if op in ops_multi:
                    ends = set([j])
                    first = True
                    cur = set([j])
                    while cur:
                        nxt = set()
                        for c in cur:
                            if self.tok(c, op):
                                for e in self.call(operand, c + 1):
                                    nxt.add(e)
                        out |= nxt
                        cur = nxt - ends
                        ends |= nxt
                if op in ops_single:
                    for e in self.call(operand, j + 1):
                        out.add(e)
        return out

    # ---------------- PL
    def pl_b(self, i):
        return self.seq_bin('pl_u', i, ('or', 'and'), ('-->',))

    def pl_u(self, i):
        out = set(self.leaf(i))
        if self.tok(i, 'not'):
            out |= self.call('pl_u', i + 1)
        if self.tok(i, '('):
            for j in self.call('pl_b', i + 1):
                if self.tok(j, ')'):
                    out.add(j + 1)
        return out

    # ---------------- CTL*
    def ctls_p(self, i):
        return self.seq_bin('ctls_u', i, ('or', 'and'), ('-->', 'U', 'R'))

    def ctls_u(self, i):
        out = set(self.leaf(i))
        if i < self.n and self.t[i] in ('X', 'F', 'G', 'not', 'A', 'E'):
            out |= self.call('ctls_u', i + 1)
        if self.tok(i, '('):
            for j in self.call('ctls_p', i + 1):
                if self.tok(j, ')'):
                    out.add(j + 1)
        return out

    # ---------------- LTL
    def ltl_p(self, i):
        return self.seq_bin('ltl_u', i, ('or', 'and'), ('-->', 'U', 'R'))

    def ltl_u(self, i):
        out = set(self.leaf(i))
        if i < self.n and self.t[i] in ('X', 'F', 'G', 'not'):
            out |= self.call('ltl_u', i + 1)
        if self.tok(i, '('):
            for j in self.call('ltl_p', i + 1):
                if self.tok(j, ')'):
                    out.add(j + 1)
        return out

    def ltl_formula(self, i):
        out = set(self.call('ltl_p', i))
        if self.tok(i, 'A'):
            out |= self.call('ltl_u', i + 1)
        return out

    # ---------------- CTL
    def ctl_s(self, i):
        out = set(self.leaf(i))
        if i < self.n and self.t[i] in ('A', 'E'):
            out |= self.call('ctl_p', i + 1)
        if self.tok(i, 'not'):
            out |= self.call('ctl_s', i + 1)
        if self.tok(i, '('):
            for j in self.call('ctl_uf', i + 1):
                if self.tok(j, ')'):
                    out.add(j + 1)
        return out

    def ctl_uf(self, i):
        return self.seq_bin('ctl_s', i, ('or', 'and'), ('-->',))

    def ctl_p(self, i):
        out = set()
        if i < self.n and self.t[i] in ('X', 'F', 'G'):
            out |= self.call('ctl_s', i + 1)
        for j in self.call('ctl_s', i):
            if j < self.n and self.t[j] in ('U', 'R'):
                out |= self.call('ctl_s', j + 1)
        if self.tok(i, '('):
            for j in self.call('ctl_p', i + 1):
                if self.tok(j, ')'):
                    out.add(j + 1)
        return out

    def ctl_formula(self, i):
        return set(self.call('ctl_p', i)) | set(self.call('ctl_uf', i))


START = {'PL': 'pl_b', 'CTLS': 'ctls_p', 'LTL': 'ltl_formula', 'CTL': 'ctl_formula'}


def accepts(logic, toks):
    if toks is None:
        return False
    r = Rec(toks, logic)
    return len(toks) in r.call(START[logic], 0)


# ---------------------------------------------------------------- yields

OPSYM = {'not': 'not', 'and': 'and', 'or': 'or', 'imp': '-->', 'X': 'X', 'F': 'F', 'G': 'G',
         'U': 'U', 'R': 'R', 'A': 'A', 'E': 'E'}


def tree_yield(t):
    """In-order token yield of a tuple formula, without parentheses."""
    op = t[0]
    if op == 'ap':
        return [t[1]]
    if op == 't':
        return ['true']
    if op == 'f':
        return ['false']
    if op in ('not', 'X', 'F', 'G', 'A', 'E'):
        return [OPSYM[op]] + tree_yield(t[1])
    out = tree_yield(t[1])
    for x in t[2:]:
        out = out + [OPSYM[op]] + tree_yield(x)
    return out


def string_yield(toks):
    out = []
    for t in toks:
        if t in ('(', ')'):
            continue
        if t.startswith('"'):
            out.append(t[1:-1])
        else:
            out.append(t)
    return out


ESC = re.compile(r'"(?:[^"\\]|\\.)*"')
SYMS = {'not': ('not', '~'), 'and': ('and', '&'), 'or': ('or', '|')}


def guided_tokens(text, yld):
    """Tokenise text the way the parser must have read it, given the in-order yield of the tree it
    returned: whitespace is skipped, parentheses are free, every other piece of text must be the
    next yield token (keyword synonyms and quoted atoms allowed).  None if impossible."""
    out = []
    i = 0
    n = len(text)
    k = 0
    while True:
        while i < n and text[i] in ' \t\r\n\f':
            i += 1
        if i >= n:
            break
        if text[i] in '()':
            out.append(text[i])
            i += 1
            continue
        if k >= len(yld):
            return None
        want = yld[k]
        matched = False
        if text[i] == '"':
            m = ESC.match(text, i)
            if m and m.group(0)[1:-1] == want:
                i = m.end()
                out.append(m.group(0))
                k += 1
                continue
            return None
        for spelling in SYMS.get(want, (want,)):
            if spelling and text.startswith(spelling, i):
                i += len(spelling)
                matched = True
                break
        if not matched:
            return None
        out.append(want)
        k += 1
    if k != len(yld):
        return None
    return out
