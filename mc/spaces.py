"""Deterministic enumerators for the bounded input spaces.

Everything here is pure Python and independent of the library under test.
Formulas are nested tuples:

  ('ap',name) ('t',) ('f',) ('not',a) ('and',a,b[,c...]) ('or',...) ('imp',a,b)
  ('X',a) ('F',a) ('G',a) ('U',a,b) ('R',a,b) ('A',a) ('E',a)

Size = number of operator nodes, where in CTL a quantifier+temporal pair
counts as ONE operator (AX, EU, ...), in LTL/CTL* every node counts.
"""
import itertools

P, Q, T, F_ = ('ap', 'p'), ('ap', 'q'), ('t',), ('f',)
LEAVES4 = (P, Q, T, F_)
LEAVES2 = (P, Q)


class K(object):
    """A tiny Kripke structure: states 0..n-1, succ[i] tuple of successors, lab[i] frozenset."""
    __slots__ = ('n', 'succ', 'lab')

    def __init__(self, n, succ, lab):
        self.n = n
        self.succ = tuple(tuple(x) for x in succ)
        self.lab = tuple(frozenset(x) for x in lab)

    def key(self):
        return (self.n, self.succ, tuple(tuple(sorted(l)) for l in self.lab))

    def to_json(self):
        return {'n': self.n, 'succ': [list(x) for x in self.succ],
                'lab': [sorted(x) for x in self.lab]}

    @staticmethod
    def from_json(d):
        return K(d['n'], d['succ'], d['lab'])

    def __repr__(self):
        return 'K(%d,%r,%r)' % (self.n, self.succ, tuple(sorted(l) for l in self.lab))


def subsets(xs):
    xs = list(xs)
    out = []
    for r in range(len(xs) + 1):
        for c in itertools.combinations(xs, r):
            out.append(frozenset(c))
    return out


def nonempty_succs(n):
    return [tuple(c) for r in range(1, n + 1) for c in itertools.combinations(range(n), r)]


def graphs_total(n):
    """All total successor maps on n states (every state has >=1 successor)."""
    ne = nonempty_succs(n)
    for succ in itertools.product(ne, repeat=n):
        yield succ


def labellings(n, atoms):
    ss = subsets(atoms)
    for lab in itertools.product(ss, repeat=n):
        yield lab


def kripkes(n, atoms=('p', 'q')):
    """All labelled total Kripke structures K(n, atoms); succ-major, label-minor order."""
    labs = list(labellings(n, atoms))
    for succ in graphs_total(n):
        for lab in labs:
            yield K(n, succ, lab)


def count_kripkes(n, atoms=('p', 'q')):
    return ((2 ** n - 1) ** n) * ((2 ** len(atoms)) ** n)


def canon_key(k):
    best = None
    for perm in itertools.permutations(range(k.n)):
        inv = [0] * k.n
        for i, p in enumerate(perm):
            inv[p] = i
        succ = tuple(tuple(sorted(perm[t] for t in k.succ[inv[i]])) for i in range(k.n))
        lab = tuple(tuple(sorted(k.lab[inv[i]])) for i in range(k.n))
        key = (succ, lab)
        if best is None or key < best:
            best = key
    return best


_REP_CACHE = {}


def kripke_reps(n, atoms=('p', 'q')):
    """One representative (the first in enumeration order) per isomorphism class."""
    ck = (n, tuple(atoms))
    if ck not in _REP_CACHE:
        seen = set()
        reps = []
        for k in kripkes(n, atoms):
            c = canon_key(k)
            if c not in seen:
                seen.add(c)
                reps.append(k)
        _REP_CACHE[ck] = reps
    return _REP_CACHE[ck]


def graph_reps(n):
    """Unlabelled total graphs up to isomorphism."""
    seen = set()
    out = []
    for succ in graphs_total(n):
        k = K(n, succ, [()] * n)
        c = canon_key(k)
        if c not in seen:
            seen.add(c)
            out.append(succ)
    return out


# ---------------------------------------------------------------- formulas

CTL_UN = ('not', 'AX', 'AF', 'AG', 'EX', 'EF', 'EG')
CTL_BIN = ('and', 'or', 'imp', 'AU', 'AR', 'EU', 'ER')


def _ctl_un(op, a):
    if op == 'not':
        return ('not', a)
    return (op[0], (op[1], a))


def _ctl_bin(op, a, b):
    if op in ('and', 'or', 'imp'):
        return (op, a, b)
    return (op[0], (op[1], a, b))


def ctl_by_size(size, leaves=LEAVES4, _memo={}):
    """List of all CTL state formulas with exactly `size` operators (sizes <= 2 are lists)."""
    key = (size, leaves)
    if key in _memo:
        return _memo[key]
    if size == 0:
        out = list(leaves)
    else:
        out = list(ctl_iter_size(size, leaves))
    _memo[key] = out
    return out


def ctl_iter_size(size, leaves=LEAVES4):
    if size == 0:
        for l in leaves:
            yield l
        return
    for a in ctl_by_size(size - 1, leaves):
        for op in CTL_UN:
            yield _ctl_un(op, a)
    for sa in range(size):
        sb = size - 1 - sa
        for a in ctl_by_size(sa, leaves):
            for b in ctl_by_size(sb, leaves):
                for op in CTL_BIN:
                    yield _ctl_bin(op, a, b)


PATH_UN = ('not', 'X', 'F', 'G')
PATH_BIN = ('and', 'or', 'imp', 'U', 'R')


def path_by_size(size, leaves=LEAVES4, _memo={}):
    key = (size, leaves)
    if key in _memo:
        return _memo[key]
    out = list(path_iter_size(size, leaves))
    _memo[key] = out
    return out


def path_iter_size(size, leaves=LEAVES4):
    """All LTL path formulas (no quantifiers) with exactly `size` operator nodes."""
    if size == 0:
        for l in leaves:
            yield l
        return
    for a in path_by_size(size - 1, leaves):
        for op in PATH_UN:
            yield (op, a)
    for sa in range(size):
        sb = size - 1 - sa
        for a in path_by_size(sa, leaves):
            for b in path_by_size(sb, leaves):
                for op in PATH_BIN:
                    yield (op, a, b)


PL_UN = ('not',)
PL_BIN = ('and', 'or', 'imp')


def pl_by_size(size, leaves=LEAVES4, _memo={}):
    key = (size, leaves)
    if key in _memo:
        return _memo[key]
    if size == 0:
        out = list(leaves)
    else:
        out = []
        for a in pl_by_size(size - 1, leaves):
            out.append(('not', a))
        for sa in range(size):
            sb = size - 1 - sa
            for a in pl_by_size(sa, leaves):
                for b in pl_by_size(sb, leaves):
                    for op in PL_BIN:
                        out.append((op, a, b))
    _memo[key] = out
    return out


def n_temporal(f):
    c = 1 if f[0] in ('X', 'F', 'G', 'U', 'R') else 0
    if f[0] in ('ap', 't', 'f'):
        return 0
    return c + sum(n_temporal(x) for x in f[1:])


def has_temporal(f):
    if f[0] in ('ap', 't', 'f'):
        return False
    if f[0] in ('X', 'F', 'G', 'U', 'R', 'A', 'E'):
        return True
    return any(has_temporal(x) for x in f[1:])


def size_of(f):
    if f[0] in ('ap', 't', 'f'):
        return 0
    return 1 + sum(size_of(x) for x in f[1:])


def ctls_state_by_size(size, leaves=LEAVES4, _memo={}):
    """CTL* STATE formulas with exactly `size` nodes (quantifier counts as a node)."""
    key = (size, leaves)
    if key not in _memo:
        _memo[key] = [f for f, st in _ctls_all(size, leaves) if st]
    return _memo[key]


def ctls_path_by_size(size, leaves=LEAVES4, _memo={}):
    """All CTL* (path) formulas with exactly `size` nodes, state formulas included."""
    key = (size, leaves)
    if key not in _memo:
        _memo[key] = [f for f, st in _ctls_all(size, leaves)]
    return _memo[key]


def _ctls_all(size, leaves, _memo={}):
    key = (size, leaves)
    if key in _memo:
        return _memo[key]
    if size == 0:
        out = [(l, True) for l in leaves]
    else:
        out = []
        for a, st in _ctls_all(size - 1, leaves):
            out.append((('not', a), st))
            for op in ('X', 'F', 'G'):
                out.append(((op, a), False))
            for qn in ('A', 'E'):
                out.append(((qn, a), True))
        for sa in range(size):
            sb = size - 1 - sa
            for a, sta in _ctls_all(sa, leaves):
                for b, stb in _ctls_all(sb, leaves):
                    for op in ('and', 'or', 'imp'):
                        out.append(((op, a, b), sta and stb))
                    for op in ('U', 'R'):
                        out.append(((op, a, b), False))
    _memo[key] = out
    return out


def block_filter(it, block, nblocks):
    for i, x in enumerate(it):
        if i % nblocks == block:
            yield x


def swap_pq(f):
    if f[0] == 'ap':
        return ('ap', {'p': 'q', 'q': 'p'}.get(f[1], f[1]))
    if f[0] in ('t', 'f'):
        return f
    return (f[0],) + tuple(swap_pq(x) for x in f[1:])


def fstr(f):
    """Compact human-readable rendering of a tuple formula (for samples/replays)."""
    op = f[0]
    if op == 'ap':
        return f[1]
    if op == 't':
        return 'true'
    if op == 'f':
        return 'false'
    if op in ('not', 'X', 'F', 'G', 'A', 'E'):
        return '%s(%s)' % (op, fstr(f[1]))
    sym = {'and': ' and ', 'or': ' or ', 'imp': ' --> ', 'U': ' U ', 'R': ' R '}[op]
    return '(' + sym.join(fstr(x) for x in f[1:]) + ')'


def to_jsonable(f):
    return [f[0]] + [to_jsonable(x) if isinstance(x, tuple) else x for x in f[1:]]


def from_jsonable(j):
    return tuple([j[0]] + [from_jsonable(x) if isinstance(x, list) else x for x in j[1:]])


# ---------------------------------------------------------------- digraphs

def digraphs(n):
    """All labelled digraphs on nodes 0..n-1 as edge tuples (bitmask order)."""
    pairs = [(i, j) for i in range(n) for j in range(n)]
    for mask in range(1 << len(pairs)):
        yield tuple(pairs[b] for b in range(len(pairs)) if (mask >> b) & 1)


def digraph_from_mask(n, mask):
    return tuple((b // n, b % n) for b in range(n * n) if (mask >> b) & 1)


# ---------------------------------------------------------------- n-ary and/or families

def nary_props(leaves=LEAVES4, arities=(3,)):
    """('and'|'or', l1, .., lk) for every k in arities over the leaves."""
    out = []
    for k in arities:
        for combo in itertools.product(leaves, repeat=k):
            for op in ('and', 'or'):
                out.append((op,) + combo)
    return out


def nary_ctl(leaves=LEAVES4):
    """CTL formulas containing a 3-ary and/or: bare, under every unary operator, as either operand
    of every binary operator (other operand a leaf), and 3-ary over one-operator operands."""
    base = nary_props(leaves)
    out = list(base)
    for a in base:
        for op in CTL_UN:
            out.append(_ctl_un(op, a))
    small = [b for i, b in enumerate(base) if i % 5 == 0]
    for a in small:
        for l in leaves[:2]:
            for op in CTL_BIN:
                out.append(_ctl_bin(op, a, l))
                out.append(_ctl_bin(op, l, a))
    one = ctl_by_size(1, leaves[:2])
    for i, x in enumerate(one):
        for l1 in leaves[:2]:
            for op in ('and', 'or'):
                out.append((op, x, l1, leaves[1]))
                out.append((op, l1, x, leaves[0]))
                out.append((op, l1, leaves[0], x))
    return out


def nary_path(leaves=LEAVES4):
    base = nary_props(leaves)
    out = list(base)
    for a in base:
        for op in PATH_UN:
            out.append((op, a))
    small = [b for i, b in enumerate(base) if i % 5 == 0]
    for a in small:
        for l in leaves[:2]:
            for op in PATH_BIN:
                out.append((op, a, l))
                out.append((op, l, a))
    one = path_by_size(1, leaves[:2])
    for x in one:
        for l1 in leaves[:2]:
            for op in ('and', 'or'):
                out.append((op, x, l1, leaves[1]))
                out.append((op, l1, x, leaves[0]))
                out.append((op, l1, leaves[0], x))
    return out


# ---------------------------------------------------------------- negation-rich families

def literal_leaves(leaves=LEAVES2):
    return tuple(leaves) + tuple(('not', l) for l in leaves)


def negated_path(leaves=LEAVES2):
    """One temporal/Boolean operator over literals p, not p, ..., bare and under an outer negation
    (shapes like `not X not p`, `not (not p U q)`) plus two-operator towers X not X, not F not G."""
    lits = literal_leaves(leaves)
    one = list(path_iter_size(1, lits))
    out = list(one) + [('not', g) for g in one]
    for a in ('X', 'F', 'G'):
        for b in ('X', 'F', 'G'):
            for l in lits:
                out.append((a, ('not', (b, l))))
                out.append(('not', (a, ('not', (b, l)))))
    seen = set()
    return [g for g in out if not (g in seen or seen.add(g))]


def negated_ctl(leaves=LEAVES2):
    lits = literal_leaves(leaves)
    one = list(ctl_iter_size(1, lits))
    out = list(one) + [('not', g) for g in one]
    for qa in ('AX', 'EX', 'AF', 'EG', 'AG', 'EF'):
        for qb in ('AX', 'EX', 'EG', 'AF'):
            for l in lits:
                out.append(_ctl_un(qa, ('not', _ctl_un(qb, l))))
    seen = set()
    return [g for g in out if not (g in seen or seen.add(g))]


def k_edits(k, atoms=('p', 'q')):
    """Single public-API edits of a structure: (description, edited K) pairs.
    add one missing edge, or toggle one (state, atom) label."""
    out = []
    for i in range(k.n):
        for j in range(k.n):
            if j not in k.succ[i]:
                succ = [tuple(sorted(set(k.succ[x]) | ({j} if x == i else set()))) for x in range(k.n)]
                out.append((('add_edge', i, j), K(k.n, succ, k.lab)))
    for i in range(k.n):
        for a in atoms:
            lab = [set(l) for l in k.lab]
            if a in lab[i]:
                lab[i].discard(a)
                out.append((('del_label', i, a), K(k.n, k.succ, lab)))
            else:
                lab[i].add(a)
                out.append((('add_label', i, a), K(k.n, k.succ, lab)))
    # install a whole new labelling written for a larger model (keys that are not states)
    lab = [set(['q']) if 'q' not in k.lab[i] else set() for i in range(k.n)]
    out.append((('replace_labelling', tuple(tuple(sorted(l)) for l in lab)), K(k.n, k.succ, lab)))
    return out


def apply_edit(Kl, edit, names=None):
    """Apply one edit of k_edits to a live library Kripke through its public API."""
    nm = (lambda i: i) if names is None else (lambda i: names[i])
    if edit[0] == 'add_edge':
        Kl.add_edge(nm(edit[1]), nm(edit[2]))
    elif edit[0] == 'add_label':
        Kl.labels(nm(edit[1])).add(edit[2])
    elif edit[0] == 'del_label':
        Kl.labels(nm(edit[1])).discard(edit[2])
    elif edit[0] == 'replace_labelling':
        L = dict((nm(i), set(l)) for i, l in enumerate(edit[1]))
        L['ghost'] = set(['p', 'q'])
        L[('no', 'state')] = set(['q'])
        L[97] = set(['p'])
        Kl.replace_labelling_function(L)
    else:
        raise ValueError(edit)


# ---------------------------------------------------------------- medium structures, towers, wide operators

def medium_kripkes(seed=0, count=40, atoms=('p', 'q')):
    """A fixed, seed-indexed family of total structures with 5..7 states: rings with chords, chains into
    loops, two components, trees with back edges, plus LCG-generated ones (deterministic)."""
    out = []
    subs = subsets(atoms)

    def lab_for(n, salt):
        return [subs[(i * 7 + salt * 3 + i * i) % len(subs)] for i in range(n)]
    for n in (5, 6, 7):
        ring = [((i + 1) % n,) for i in range(n)]
        out.append(K(n, ring, lab_for(n, 1)))
        out.append(K(n, [((i + 1) % n, (i + 2) % n) for i in range(n)], lab_for(n, 2)))
        chain = [(i + 1,) for i in range(n - 1)] + [(n - 1,)]
        out.append(K(n, chain, lab_for(n, 3)))
        out.append(K(n, [(i + 1, 0) if i < n - 1 else (n - 2,) for i in range(n)], lab_for(n, 4)))
        two = [((i + 1) % 3,) for i in range(3)] + [(3 + (i + 1) % (n - 3), 0) if i == 0 else (3 + (i + 1) % (n - 3),)
                                                   for i in range(n - 3)]
        out.append(K(n, two, lab_for(n, 5)))
        tree = [tuple(sorted(set([min(2 * i + 1, n - 1), min(2 * i + 2, n - 1)]))) for i in range(n)]
        tree[n - 1] = (0,)
        out.append(K(n, tree, lab_for(n, 6)))
    x = (seed * 2654435761 + 12345) % (1 << 31)
    while len(out) < count:
        x = (x * 1103515245 + 12345) % (1 << 31)
        n = 5 + x % 3
        succ = []
        for i in range(n):
            x = (x * 1103515245 + 12345) % (1 << 31)
            m = 1 + x % 2
            s = set()
            for _ in range(m):
                x = (x * 1103515245 + 12345) % (1 << 31)
                s.add(x % n)
            succ.append(tuple(sorted(s)))
        x = (x * 1103515245 + 12345) % (1 << 31)
        out.append(K(n, succ, lab_for(n, x % 11)))
    return out[:count]


def ctl_towers(depth, leaves=(P,)):
    """Unary CTL operators nested `depth` deep over the leaves."""
    cur = list(leaves)
    for _ in range(depth):
        cur = [_ctl_un(op, a) for a in cur for op in CTL_UN]
    return cur


def path_towers(depth, leaves=(P,)):
    cur = list(leaves)
    for _ in range(depth):
        cur = [(op, a) for a in cur for op in PATH_UN]
    return cur


def wide_props(leaves=LEAVES2, arities=(4, 5)):
    """and/or with 4 and 5 operands over literals (a stride, the full product is large)."""
    lits = literal_leaves(leaves)
    out = []
    for k in arities:
        for i, combo in enumerate(itertools.product(lits, repeat=k)):
            if i % (7 if k == 4 else 53) == 0:
                for op in ('and', 'or'):
                    out.append((op,) + combo)
    return out
