"""Iteration-order control, installed from the harness side only."""


class OrderedSet(set):
    """A set whose Python-level iteration order is chosen by the harness."""

    def __init__(self, items=()):
        items = list(items)
        super(OrderedSet, self).__init__(items)
        self._order = []
        for x in items:
            if x not in self._order:
                self._order.append(x)

    def __iter__(self):
        return iter(list(self._order))

    def add(self, x):
        if x not in self:
            self._order.append(x)
        super(OrderedSet, self).add(x)

    def discard(self, x):
        if x in self:
            self._order.remove(x)
        super(OrderedSet, self).discard(x)

    def remove(self, x):
        super(OrderedSet, self).remove(x)
        self._order.remove(x)


def set_successor_orders(G, orders):
    """Replace the adjacency sets of a built DiGraph by OrderedSets (orders: node -> list)."""
    if not isinstance(getattr(G, '_next', None), dict):
        return False        # the adjacency is no longer a private dict of sets: order cannot be owned
    for v, order in orders.items():
        assert set(order) == set(G._next[v])
        G._next[v] = OrderedSet(order)
    return True
