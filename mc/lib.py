"""Adapters between the tuple world of the harness and the real library objects.

`read` is a structural reader that does not use the library's ==, str or hash:
it looks at class names and at the child list only.
"""
import sys

import pyModelChecking
from pyModelChecking import Kripke
import pyModelChecking.PL as PL
import pyModelChecking.CTL as CTL
import pyModelChecking.LTL as LTL
import pyModelChecking.CTLS as CTLS

LANGS = {'PL': PL, 'CTL': CTL, 'LTL': LTL, 'CTLS': CTLS}

OP2CLASS = {'not': 'Not', 'and': 'And', 'or': 'Or', 'imp': 'Imply', 'X': 'X', 'F': 'F',
            'G': 'G', 'U': 'U', 'R': 'R', 'A': 'A', 'E': 'E'}
CLASS2OP = dict((v, k) for k, v in OP2CLASS.items())


def repo_root():
    # /repo unless a background sweep points the harness at a snapshot of it (VERIF_REPO together
    # with PYTHONPATH); registered commands never set it
    import os
    return os.environ.get('VERIF_REPO') or '/repo'


def assert_repo_import():
    path = pyModelChecking.__file__
    root = repo_root().rstrip('/') + '/'
    if not path.startswith(root):
        raise RuntimeError('pyModelChecking resolves to %s, not %s' % (path, root))
    return path


def to_kripke(k, names=None, S0=None):
    names = names if names is not None else list(range(k.n))
    return Kripke(S=[names[i] for i in range(k.n)],
                  S0=S0,
                  R=[(names[i], names[j]) for i in range(k.n) for j in k.succ[i]],
                  L=dict((names[i], set(k.lab[i])) for i in range(k.n)))


def build(f, L):
    """Build tuple formula f with the classes of language module L (bottom-up, objects)."""
    op = f[0]
    if op == 't':
        return L.Bool(True)
    if op == 'f':
        return L.Bool(False)
    if op == 'ap':
        return L.AtomicProposition(f[1])
    return getattr(L, OP2CLASS[op])(*[build(x, L) for x in f[1:]])


def read(obj):
    """Independent structural reading of a library formula object -> tuple formula."""
    cname = type(obj).__name__
    if cname == 'Bool':
        v = obj._value
        if v is True:
            return ('t',)
        if v is False:
            return ('f',)
        raise ValueError('Bool with value %r' % (v,))
    if cname == 'AtomicProposition':
        return ('ap', obj.name)
    if cname not in CLASS2OP:
        raise ValueError('unknown node class %s' % cname)
    return (CLASS2OP[cname],) + tuple(read(x) for x in obj._subformula)


def lang_of(obj):
    """Name of the language module the object's class is defined in."""
    mod = type(obj).__module__
    for name, m in LANGS.items():
        if mod == m.__name__ + '.language' or mod == m.__name__:
            return name
    return mod


def all_same_lang(obj, name):
    if lang_of(obj) != name:
        return False
    if type(obj).__name__ in ('Bool', 'AtomicProposition'):
        return True
    return all(all_same_lang(x, name) for x in obj._subformula)


def next_map(G):
    """Adjacency mapping of a library graph: the private dict itself when the class still keeps one under
    this name (object identities are then meaningful for aliasing checks), else a copy read through the
    public API (identity checks on it are vacuous, value checks unaffected)."""
    m = getattr(G, '_next', None)
    if isinstance(m, dict):
        return m
    return dict((v, set(G.next(v))) for v in G.nodes())


def label_map(K):
    """Labelling mapping of a library Kripke structure (private dict, else read through labels())."""
    m = getattr(K, '_labels', None)
    if isinstance(m, dict):
        return m
    return dict((s, set(K.labels(s))) for s in K.states())


def owns_adjacency(G):
    return isinstance(getattr(G, '_next', None), dict)


def owns_labels(K):
    return isinstance(getattr(K, '_labels', None), dict)


def adjacency_ids(G):
    """id of every private adjacency set (empty when the graph has no private dict of that name)."""
    if not owns_adjacency(G):
        return {}
    return dict((v, id(G._next[v])) for v in G._next)


def snapshot_kripke(K):
    """Deep, order-insensitive snapshot of a library Kripke structure."""
    def key(x):
        return repr(x)
    nx, lb = next_map(K), label_map(K)
    states = sorted(nx.keys(), key=key)
    return (tuple(repr(s) for s in states),
            tuple((repr(s), tuple(sorted(repr(d) for d in nx[s]))) for s in states),
            tuple((repr(s), tuple(sorted(repr(a) for a in lb[s]))) for s in states)
            if set(lb.keys()) == set(states) else ('LABEL-KEYS-DIFFER',
                                                   tuple(sorted(repr(x) for x in lb.keys()))),
            tuple(sorted(repr(s) for s in K.S0)))
