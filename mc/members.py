"""Membership predicates for the four languages, transcribed from doc/source/logics.rst
(independent of the library's class hierarchy)."""

BOOLOPS = ('not', 'and', 'or', 'imp')
TEMPS = ('X', 'F', 'G', 'U', 'R')
ARITY = {'not': (1, 1), 'and': (2, 99), 'or': (2, 99), 'imp': (2, 2), 'X': (1, 1), 'F': (1, 1),
         'G': (1, 1), 'U': (2, 2), 'R': (2, 2), 'A': (1, 1), 'E': (1, 1)}


def leaf(t):
    return t[0] in ('ap', 't', 'f')


def pl(t):
    if leaf(t):
        return True
    return t[0] in BOOLOPS and all(pl(x) for x in t[1:])


def ltl_path(t):
    if leaf(t):
        return True
    return (t[0] in BOOLOPS or t[0] in TEMPS) and all(ltl_path(x) for x in t[1:])


def ltl_state(t):
    return t[0] == 'A' and ltl_path(t[1])


def ltl(t):
    """Any LTL object: a path formula or A applied to one."""
    return ltl_path(t) or ltl_state(t)


def ctls_state(t):
    if leaf(t):
        return True
    if t[0] in ('A', 'E'):
        return ctls(t[1])
    if t[0] in BOOLOPS:
        return all(ctls_state(x) for x in t[1:])
    return False


def ctls(t):
    """Any CTL* formula (path formulas include state formulas)."""
    if leaf(t):
        return True
    return t[0] in ARITY and all(ctls(x) for x in t[1:])


def ctl_state(t):
    if leaf(t):
        return True
    if t[0] in BOOLOPS:
        return all(ctl_state(x) for x in t[1:])
    if t[0] in ('A', 'E'):
        return ctl_path(t[1])
    return False


def ctl_path(t):
    return t[0] in TEMPS and all(ctl_state(x) for x in t[1:])


def ctl(t):
    """Any CTL object: a state formula or a (one-step) path formula."""
    return ctl_state(t) or ctl_path(t)


MEMBER = {'PL': pl, 'LTL': ltl, 'CTL': ctl, 'CTLS': ctls}
STATE = {'PL': pl, 'LTL': ltl_state, 'CTL': ctl_state, 'CTLS': ctls_state}


def arity_ok(t):
    if leaf(t):
        return True
    lo, hi = ARITY[t[0]]
    return lo <= len(t) - 1 <= hi and all(arity_ok(x) for x in t[1:])
