"""Bounded-exhaustive (model-checking family) verification machinery for pyModelChecking."""
