"""Reference semantics (independent of the library under test).

 * lasso_eval      literal path semantics on an ultimately periodic word
 * ctl_sat         CTL by naive fixpoints, every operator by its own clause
 * Sem             CTL*/LTL by explicit-state product with brute-force guesses,
                   optional fairness constraints (extra Buchi sets), witness lassos
 * lassos_from     all lassos of K from a state with bounded stem/loop
"""
import itertools

from .spaces import K

TEMP = frozenset(['X', 'F', 'G', 'U', 'R'])
BOOL = frozenset(['not', 'and', 'or', 'imp'])


def is_state(f):
    op = f[0]
    if op in ('t', 'f', 'ap', 'A', 'E', 'fairstates', 't_raw'):
        return True
    if op in BOOL:
        return all(is_state(x) for x in f[1:])
    return False


# ------------------------------------------------------------------ lassos

def lasso_eval(f, m, back, state_sat):
    """Truth of path formula f at every position of a lasso with m positions.

    next(i) = i+1 for i < m-1, next(m-1) = back.  state_sat(g, i) decides the
    (maximal) state subformulas at position i.  F, G, U, R are evaluated by
    their own fixpoint clauses, nothing is rewritten.
    """
    nxt = [i + 1 for i in range(m)]
    nxt[m - 1] = back
    memo = {}

    def fix(init, step):
        v = [init] * m
        changed = True
        while changed:
            changed = False
            for i in range(m - 1, -1, -1):
                nv = step(i, v[nxt[i]])
                if nv != v[i]:
                    v[i] = nv
                    changed = True
        return tuple(v)

    def ev(g):
        if g in memo:
            return memo[g]
        op = g[0]
        if is_state(g):
            r = tuple(bool(state_sat(g, i)) for i in range(m))
        elif op == 'not':
            a = ev(g[1])
            r = tuple(not x for x in a)
        elif op == 'and':
            parts = [ev(x) for x in g[1:]]
            r = tuple(all(p[i] for p in parts) for i in range(m))
        elif op == 'or':
            parts = [ev(x) for x in g[1:]]
            r = tuple(any(p[i] for p in parts) for i in range(m))
        elif op == 'imp':
            a, b = ev(g[1]), ev(g[2])
            r = tuple((not x) or y for x, y in zip(a, b))
        elif op == 'X':
            a = ev(g[1])
            r = tuple(a[nxt[i]] for i in range(m))
        elif op == 'F':
            a = ev(g[1])
            r = fix(False, lambda i, nx: a[i] or nx)
        elif op == 'G':
            a = ev(g[1])
            r = fix(True, lambda i, nx: a[i] and nx)
        elif op == 'U':
            a, b = ev(g[1]), ev(g[2])
            r = fix(False, lambda i, nx: b[i] or (a[i] and nx))
        elif op == 'R':
            a, b = ev(g[1]), ev(g[2])
            r = fix(True, lambda i, nx: b[i] and (a[i] or nx))
        else:
            raise ValueError(g)
        memo[g] = r
        return r

    return ev(f)


def lassos_from(k, s, max_stem, max_loop):
    """Every (stem, loop) of K with stem[0]==s (or loop[0]==s if stem empty)."""
    def paths(start, length):
        # all paths with `length` states starting at start
        if length == 1:
            yield (start,)
            return
        for p in paths(start, length - 1):
            for t in k.succ[p[-1]]:
                yield p + (t,)

    for total in range(1, max_stem + max_loop + 1):
        for p in paths(s, total):
            last = p[-1]
            for back in range(total):
                stem_len = back
                loop_len = total - back
                if stem_len > max_stem or loop_len > max_loop:
                    continue
                if p[back] in k.succ[last]:
                    yield p[:back], p[back:]


# ------------------------------------------------------------------ CTL, naive

def ctl_sat(k, f, memo=None):
    """CTL state formula by naive fixpoints; every operator has its own clause."""
    if memo is None:
        memo = {}
    if f in memo:
        return memo[f]
    S = frozenset(range(k.n))
    op = f[0]

    def pre_e(X):
        return frozenset(s for s in S if any(t in X for t in k.succ[s]))

    def pre_a(X):
        return frozenset(s for s in S if all(t in X for t in k.succ[s]))

    def lfp(step):
        X = frozenset()
        while True:
            Y = step(X)
            if Y == X:
                return X
            X = Y

    def gfp(step):
        X = S
        while True:
            Y = step(X)
            if Y == X:
                return X
            X = Y

    if op == 't':
        r = S
    elif op == 'f':
        r = frozenset()
    elif op == 'ap':
        r = frozenset(s for s in S if f[1] in k.lab[s])
    elif op == 'not':
        r = S - ctl_sat(k, f[1], memo)
    elif op == 'and':
        r = S
        for x in f[1:]:
            r = r & ctl_sat(k, x, memo)
    elif op == 'or':
        r = frozenset()
        for x in f[1:]:
            r = r | ctl_sat(k, x, memo)
    elif op == 'imp':
        r = (S - ctl_sat(k, f[1], memo)) | ctl_sat(k, f[2], memo)
    elif op in ('A', 'E'):
        g = f[1]
        pre = pre_a if op == 'A' else pre_e
        t = g[0]
        if t not in TEMP:
            raise ValueError('not CTL: %r' % (f,))
        a = ctl_sat(k, g[1], memo)
        if t == 'X':
            r = pre(a)
        elif t == 'F':
            r = lfp(lambda X: a | pre(X))
        elif t == 'G':
            r = gfp(lambda X: a & pre(X))
        else:
            b = ctl_sat(k, g[2], memo)
            if t == 'U':
                r = lfp(lambda X: b | (a & pre(X)))
            else:
                r = gfp(lambda X: b & (a | pre(X)))
    else:
        raise ValueError('not CTL: %r' % (f,))
    memo[f] = r
    return r


# ------------------------------------------------------------------ CTL*, product

class Sem(object):
    """CTL* semantics on k, optionally restricted to fair paths.

    F: None or a list of sets of states.  Under fairness (CGP): quantifiers
    range over fair paths; an atom p means "p and a fair path starts here";
    if bool_is_atom, the constant true is read the same way.
    Counters: self.states / self.transitions count product nodes and edges built.
    """

    def __init__(self, k, F=None, bool_is_atom=True):
        self.k = k
        self.F = None if F is None else [frozenset(P) for P in F]
        self.bool_is_atom = bool_is_atom
        self.memo = {}
        self.prod = {}
        self.states = 0
        self.transitions = 0
        self.S = frozenset(range(k.n))

    # ---- state formulas
    def sat(self, f):
        memo = self.memo
        if f in memo:
            return memo[f]
        S = self.S
        op = f[0]
        if op == 't_raw':
            r = S
        elif op == 'fairstates':
            r = self.exists(('t_raw',)) if self.F is not None else S
        elif op == 't':
            r = self.sat(('fairstates',)) if (self.F is not None and self.bool_is_atom) else S
        elif op == 'f':
            r = frozenset()
        elif op == 'ap':
            r = frozenset(s for s in S if f[1] in self.k.lab[s])
            if self.F is not None:
                r = r & self.sat(('fairstates',))
        elif op == 'not':
            r = S - self.sat(f[1])
        elif op == 'and':
            r = S
            for x in f[1:]:
                r = r & self.sat(x)
        elif op == 'or':
            r = frozenset()
            for x in f[1:]:
                r = r | self.sat(x)
        elif op == 'imp':
            r = (S - self.sat(f[1])) | self.sat(f[2])
        elif op == 'E':
            r = self.exists(f[1])
        elif op == 'A':
            r = S - self.exists(('not', f[1]))
        else:
            raise ValueError('not a state formula: %r' % (f,))
        memo[f] = r
        return r

    # ---- path formulas
    def _product(self, g):
        if g in self.prod:
            return self.prod[g]
        k = self.k
        T = []

        def tsubs(h):
            if is_state(h):
                return
            if h[0] in TEMP and h not in T:
                T.append(h)
            for x in h[1:]:
                tsubs(x)
        tsubs(g)
        idx = dict((t, i) for i, t in enumerate(T))
        nT = len(T)

        def val(h, s, v):
            if is_state(h):
                return s in self.sat(h)
            op = h[0]
            if op in TEMP:
                return v[idx[h]]
            if op == 'not':
                return not val(h[1], s, v)
            if op == 'and':
                return all(val(x, s, v) for x in h[1:])
            if op == 'or':
                return any(val(x, s, v) for x in h[1:])
            if op == 'imp':
                return (not val(h[1], s, v)) or val(h[2], s, v)
            raise ValueError(h)

        nodes = [(s, v) for s in range(k.n)
                 for v in itertools.product((False, True), repeat=nT)]
        # pre-compute operand values at every node
        opv = {}
        for a in nodes:
            for t in T:
                opv[(a, t)] = tuple(val(x, a[0], a[1]) for x in t[1:])

        def ok(a, b):
            v, v2 = a[1], b[1]
            for t in T:
                op = t[0]
                cur = v[idx[t]]
                if op == 'X':
                    e = opv[(b, t)][0]
                elif op == 'F':
                    e = opv[(a, t)][0] or v2[idx[t]]
                elif op == 'G':
                    e = opv[(a, t)][0] and v2[idx[t]]
                elif op == 'U':
                    x, y = opv[(a, t)]
                    e = y or (x and v2[idx[t]])
                else:
                    x, y = opv[(a, t)]
                    e = y and (x or v2[idx[t]])
                if cur != e:
                    return False
            return True

        adj = {}
        ntr = 0
        for a in nodes:
            succs = [b for b in nodes if b[0] in k.succ[a[0]] and ok(a, b)]
            adj[a] = succs
            ntr += len(succs)
        self.states += len(nodes)
        self.transitions += ntr

        acc = []
        if self.F is not None:
            for Pset in self.F:
                acc.append(frozenset(a for a in nodes if a[0] in Pset))
        for t in T:
            op = t[0]
            i = idx[t]
            if op == 'F':
                acc.append(frozenset(a for a in nodes if (not a[1][i]) or opv[(a, t)][0]))
            elif op == 'U':
                acc.append(frozenset(a for a in nodes if (not a[1][i]) or opv[(a, t)][1]))
            elif op == 'G':
                acc.append(frozenset(a for a in nodes if a[1][i] or not opv[(a, t)][0]))
            elif op == 'R':
                acc.append(frozenset(a for a in nodes if a[1][i] or not opv[(a, t)][1]))

        reach = {}
        for a in nodes:
            st = list(adj[a])
            seen = set(st)
            while st:
                x = st.pop()
                for y in adj[x]:
                    if y not in seen:
                        seen.add(y)
                        st.append(y)
            reach[a] = seen
        good = set()
        comp_of = {}
        for a in nodes:
            if a in reach[a]:
                comp = frozenset(b for b in reach[a] if a in reach[b])
                if all(comp & Fi for Fi in acc):
                    good.add(a)
                    comp_of[a] = comp
        start = {}
        for a in nodes:
            if val(g, a[0], a[1]) and (a in good or reach[a] & good):
                start.setdefault(a[0], a)
        res = (nodes, adj, acc, reach, good, comp_of, start)
        self.prod[g] = res
        return res

    def exists(self, g):
        """States from which some (fair) path satisfies path formula g."""
        key = ('E', g)
        if key in self.memo:
            return self.memo[key]
        start = self._product(g)[6]
        r = frozenset(start.keys())
        self.memo[key] = r
        return r

    def witness(self, g, s):
        """A lasso (stem, loop) of K-states from s satisfying g, or None."""
        nodes, adj, acc, reach, good, comp_of, start = self._product(g)
        if s not in start:
            return None
        a = start[s]

        def bfs(src, targets, allowed=None, at_least_one=False):
            # shortest path (list of nodes, src first) to a node in targets
            if not at_least_one and src in targets:
                return [src]
            prev = {}
            queue = [src]
            seen = set()
            if not at_least_one:
                seen.add(src)
            qi = 0
            while qi < len(queue):
                x = queue[qi]
                qi += 1
                for y in adj[x]:
                    if allowed is not None and y not in allowed:
                        continue
                    if y in seen:
                        continue
                    seen.add(y)
                    prev[y] = x
                    if y in targets:
                        path = [y]
                        cur = x
                        while cur != src:
                            path.append(cur)
                            cur = prev[cur]
                        path.append(src)
                        path.reverse()
                        return path
                    queue.append(y)
            return None

        to_good = bfs(a, good)
        b = to_good[-1]
        comp = comp_of[b]
        cyc = [b]
        for Fi in acc:
            seg = bfs(cyc[-1], Fi & comp, allowed=comp)
            cyc.extend(seg[1:])
        back = bfs(cyc[-1], frozenset([b]), allowed=comp, at_least_one=True)
        cyc.extend(back[1:])       # ends with b again
        loop_nodes = cyc[:-1]
        stem_nodes = to_good[:-1]
        stem = tuple(x[0] for x in stem_nodes)
        loop = tuple(x[0] for x in loop_nodes)
        return stem, loop

    def lasso_holds(self, g, stem, loop):
        """Literal evaluation of g at position 0 of stem.loop^w (state subformulas by sat)."""
        word = tuple(stem) + tuple(loop)
        m = len(word)
        r = lasso_eval(g, m, len(stem), lambda h, i: word[i] in self.sat(h))
        return r[0]

    def lasso_is_fair(self, loop):
        if self.F is None:
            return True
        ls = set(loop)
        return all(ls & P for P in self.F)

    def lasso_is_path(self, stem, loop):
        word = tuple(stem) + tuple(loop)
        k = self.k
        for i in range(len(word) - 1):
            if word[i + 1] not in k.succ[word[i]]:
                return False
        return loop[0] in k.succ[word[-1]]


def ltl_all(k, g, sem=None):
    """States all of whose paths satisfy g."""
    if sem is None:
        sem = Sem(k)
    return sem.S - sem.exists(('not', g))


# ------------------------------------------------------------------ graphs

def closure(n, edges):
    """reach[i][j] True iff a path of length >= 1 from i to j (Warshall)."""
    r = [[False] * n for _ in range(n)]
    for (i, j) in edges:
        r[i][j] = True
    for m in range(n):
        rm = r[m]
        for i in range(n):
            if r[i][m]:
                ri = r[i]
                for j in range(n):
                    if rm[j]:
                        ri[j] = True
    return r


def fair_states(k, F):
    """States with a path visiting every set of F infinitely often (Warshall-based)."""
    n = k.n
    edges = [(i, j) for i in range(n) for j in k.succ[i]]
    r = closure(n, edges)
    fair_core = set()
    for i in range(n):
        if r[i][i]:
            comp = set(j for j in range(n) if r[i][j] and r[j][i])
            if all(comp & set(P) for P in F):
                fair_core.add(i)
    return frozenset(i for i in range(n)
                     if i in fair_core or any(r[i][j] for j in fair_core))
