"""Reference model for Boolean functions: truth tables (tuples of bools) and helpers."""
import itertools


def assignments(nv):
    return list(itertools.product((0, 1), repeat=nv))


class TT(object):
    """Truth-table utilities for a fixed variable list."""

    def __init__(self, variables):
        self.V = list(variables)
        self.nv = len(self.V)
        self.ASG = assignments(self.nv)
        self.index = dict((a, i) for i, a in enumerate(self.ASG))

    def of_node(self, node):
        """Evaluate a library BDD node on every assignment by walking low/high."""
        out = []
        for a in self.ASG:
            env = dict(zip(self.V, a))
            n = node
            steps = 0
            while type(n).__name__ == 'BDDNonTerminalNode':
                n = n.high if env[n.var] else n.low
                steps += 1
                if steps > 64:
                    raise RuntimeError('cyclic diagram')
            out.append(bool(n.value))
        return tuple(out)

    def of_expr(self, e):
        return tuple(bool(eval_expr(e, dict(zip(self.V, a)))) for a in self.ASG)

    def support(self, t):
        memo = self.__dict__.setdefault('_sup_memo', {})
        key = tuple(t)
        if key not in memo:
            memo[key] = frozenset(self._support(t))
        return set(memo[key])

    def _support(self, t):
        s = set()
        for i, v in enumerate(self.V):
            for a, bit in zip(self.ASG, t):
                a2 = list(a)
                a2[i] = 1 - a2[i]
                if t[self.index[tuple(a2)]] != bit:
                    s.add(v)
                    break
        return s

    def cofactor(self, t, v, b):
        i = self.V.index(v)
        b = int(bool(b))
        return tuple(t[self.index[tuple((b if k == i else x) for k, x in enumerate(a))]]
                     for a in self.ASG)

    def dnf(self, t):
        terms = []
        for a, bit in zip(self.ASG, t):
            if bit:
                if self.nv == 0:
                    return '1'
                terms.append('(' + ' & '.join((v if x else '~' + v)
                                              for v, x in zip(self.V, a)) + ')')
        return ' | '.join(terms) if terms else '0'

    def all_functions(self):
        return itertools.product((False, True), repeat=len(self.ASG))

    def robdd_size(self, t, order):
        """Number of non-terminal nodes of the reduced OBDD of t under `order` (memoised)."""
        key = (tuple(t), tuple(order))
        memo = self.__dict__.setdefault('_size_memo', {})
        if key not in memo:
            memo[key] = self._robdd_size(t, order)
        return memo[key]

    def _robdd_size(self, t, order):
        """Number of non-terminal nodes of the reduced OBDD of t under `order` (by subfunction count)."""
        # distinct non-constant subfunctions that depend on their top variable
        seen = set()

        def rec(fixed, rest):
            # fixed: dict var->bit ; rest: remaining vars in order
            sub = tuple(t[self.index[tuple(fixed.get(v, a[i]) if v in fixed else a[i]
                                           for i, v in enumerate(self.V))]] for a in self.ASG)
            return sub
        count = set()

        def walk(sub_t, k):
            if all(sub_t) or not any(sub_t):
                return
            # find first var in order[k:] on which sub_t depends
            for j in range(k, len(order)):
                v = order[j]
                lo = self.cofactor(sub_t, v, 0)
                hi = self.cofactor(sub_t, v, 1)
                if lo != hi:
                    key = (v, sub_t)
                    if key in count:
                        return
                    count.add(key)
                    walk(lo, j + 1)
                    walk(hi, j + 1)
                    return
        walk(tuple(t), 0)
        return len(count)


def eval_expr(e, env):
    op = e[0]
    if op == 'v':
        return env[e[1]]
    if op == 'c':
        return e[1]
    if op == '~':
        return not eval_expr(e[1], env)
    if op == '&':
        return eval_expr(e[1], env) and eval_expr(e[2], env)
    if op == '|':
        return eval_expr(e[1], env) or eval_expr(e[2], env)
    raise ValueError(e)


def expr_vars(e):
    if e[0] == 'v':
        return {e[1]}
    if e[0] == 'c':
        return set()
    s = set()
    for x in e[1:]:
        s |= expr_vars(x)
    return s


def render(e, style='sym'):
    """style 'sym': ~ & | ; 'word': not and or ; constants 0/1 (sym) or False/True (word)."""
    op = e[0]
    if op == 'v':
        return e[1]
    if op == 'c':
        if style == 'word':
            return 'True' if e[1] else 'False'
        return '1' if e[1] else '0'
    if op == '~':
        return ('~(%s)' if style == 'sym' else 'not (%s)') % render(e[1], style)
    sym = {'&': ' & ', '|': ' | '} if style == 'sym' else {'&': ' and ', '|': ' or '}
    return '(%s)%s(%s)' % (render(e[1], style), sym[op], render(e[2], style))


def exprs(depth, variables, _memo={}):
    key = (depth, tuple(variables))
    if key in _memo:
        return _memo[key]
    if depth == 0:
        out = [('v', v) for v in variables] + [('c', 0), ('c', 1)]
    else:
        sub = exprs(depth - 1, variables)
        out = list(sub)
        seen = set(out)
        for a in sub:
            e = ('~', a)
            if e not in seen:
                seen.add(e)
                out.append(e)
        for a in sub:
            for b in sub:
                for op in '&|':
                    e = (op, a, b)
                    if e not in seen:
                        seen.add(e)
                        out.append(e)
    _memo[key] = out
    return out


def wellformed(root, order):
    """Every reachable node ordered (strictly earlier than children) and reduced (low is not high)."""
    pos = dict((v, i) for i, v in enumerate(order))
    seen = set()
    st = [root]
    nodes = []
    while st:
        n = st.pop()
        if id(n) in seen or type(n).__name__ != 'BDDNonTerminalNode':
            continue
        seen.add(id(n))
        nodes.append(n)
        if n.low is n.high:
            return False, 'unreduced node on %s' % n.var
        if n.var not in pos:
            return False, 'variable %s outside ordering' % n.var
        for c in (n.low, n.high):
            if type(c).__name__ == 'BDDNonTerminalNode':
                if c.var not in pos or pos[n.var] >= pos[c.var]:
                    return False, 'unordered %s above %s' % (n.var, c.var)
                st.append(c)
    # no duplicate (var, low, high) among reachable nodes
    keys = set()
    for n in nodes:
        k = (n.var, id(n.low), id(n.high))
        if k in keys:
            return False, 'duplicate node'
        keys.add(k)
    return True, len(nodes)


def reachable_vars(root):
    seen = set()
    st = [root]
    vs = set()
    while st:
        n = st.pop()
        if id(n) in seen or type(n).__name__ != 'BDDNonTerminalNode':
            continue
        seen.add(id(n))
        vs.add(n.var)
        st.append(n.low)
        st.append(n.high)
    return vs
