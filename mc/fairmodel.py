"""Defect models for the recorded fairness findings (see DESIGN.md section 8).

 * d4_admissible    : the set of answers get_fair_states may give under finding D4
 * model_ctl/ltl/ctls : the library's documented reduction of fair model checking to plain
   model checking over a 'fair' label, transcribed on tuple formulas and evaluated with the
   harness's own (unfair) reference semantics.  Used ONLY to recognise finding D7: an answer
   that differs from the CGP reference is attributed to D7 iff it equals this model's answer.
"""
import itertools

from .spaces import K
from .refsem import ctl_sat, Sem, closure, TEMP

FAIR = ('ap', '#fair')
T = ('t',)


def scc_classes(k):
    n = k.n
    edges = [(i, j) for i in range(n) for j in k.succ[i]]
    r = closure(n, edges)
    out = []
    seen = set()
    for i in range(n):
        if i in seen:
            continue
        comp = frozenset(j for j in range(n) if j == i or (r[i][j] and r[j][i]))
        seen |= comp
        nontrivial = r[i][i]
        out.append((comp, nontrivial))
    return out, r


def backward(k, r, core):
    return frozenset(i for i in range(k.n) if i in core or any(r[i][j] for j in core))


def d4_admissible(k, F):
    """(reference answer, set of admissible answers under D4)."""
    comps, r = scc_classes(k)
    fair = [c for c, nt in comps if nt and all(c & frozenset(P) for P in F)]
    ref = backward(k, r, frozenset().union(*fair) if fair else frozenset())
    must = [c for c in fair if len(c) >= 2 and all(i in k.succ[i] for i in c)]
    may = [c for c in fair if len(c) >= 2 and any(i in k.succ[i] for i in c)]
    opt = [c for c in may if c not in must]
    adm = set()
    for m in range(len(opt) + 1):
        for extra in itertools.combinations(opt, m):
            core = frozenset().union(*(must + list(extra))) if (must or extra) else frozenset()
            adm.add(backward(k, r, core))
    return ref, adm


def with_fair(k, fairset, extra=None):
    lab = [set(l) for l in k.lab]
    for s in fairset:
        lab[s].add('#fair')
    if extra:
        for name, states in extra.items():
            for s in states:
                lab[s].add(name)
    return K(k.n, k.succ, lab)


def nf_atoms(h):
    op = h[0]
    if op in ('ap', 't', 'f'):
        return ('and', h, FAIR)
    return (op,) + tuple(nf_atoms(x) for x in h[1:])


def nf_ctl(f):
    op = f[0]
    if op in ('ap', 't', 'f'):
        return ('and', f, FAIR)
    if op in ('not', 'and', 'or', 'imp'):
        return (op,) + tuple(nf_ctl(x) for x in f[1:])
    g = f[1]
    t = g[0]
    a = nf_ctl(g[1])
    b = nf_ctl(g[2]) if t in ('U', 'R') else None
    if op == 'E':
        if t == 'X':
            return ('E', ('X', ('and', a, FAIR)))
        if t == 'F':
            return ('E', ('U', T, ('and', a, FAIR)))
        if t == 'G':
            return ('E', ('G', ('and', a, FAIR)))
        if t == 'U':
            return ('E', ('U', a, ('and', b, FAIR)))
        if t == 'R':
            return ('or', ('E', ('U', b, ('and', ('not', ('or', ('not', a), ('not', b))), FAIR))),
                    ('E', ('G', ('and', b, FAIR))))
    if op == 'A':
        na = ('not', a)
        if t == 'X':
            return ('not', ('E', ('X', ('and', na, FAIR))))
        if t == 'F':
            return ('not', ('E', ('G', ('and', na, FAIR))))
        if t == 'G':
            return ('not', ('E', ('U', T, ('and', na, FAIR))))
        nb = ('not', b)
        if t == 'U':
            return ('not', ('or', ('E', ('U', nb, ('and', ('not', ('or', a, b)), FAIR))),
                            ('E', ('G', ('and', nb, FAIR)))))
        if t == 'R':
            return ('not', ('E', ('U', na, ('and', nb, FAIR))))
    raise ValueError(f)


def model_ctl(k, f, fairset):
    return ctl_sat(with_fair(k, fairset), nf_ctl(f))


def model_ltl(k, f, fairset):
    g = f[1]
    sem = Sem(with_fair(k, fairset))
    return sem.S - sem.exists(('and', FAIR, nf_atoms(('not', g))))


def propositional(h):
    if h[0] in ('ap', 't', 'f'):
        return True
    if h[0] in ('not', 'and', 'or', 'imp'):
        return all(propositional(x) for x in h[1:])
    return False


def model_ctls(k, f, fairset):
    extra = {}
    counter = [0]

    def kcur():
        return with_fair(k, fairset, extra)

    def remove(h):
        op = h[0]
        if op in ('ap', 't', 'f'):
            return h
        if op in ('A', 'E'):
            states = check_q(h)
            counter[0] += 1
            name = '#q%d' % counter[0]
            extra[name] = frozenset(states)
            return ('ap', name)
        return (op,) + tuple(remove(x) for x in h[1:])

    def check_q(h):
        psi = remove(h[1])
        if psi[0] in TEMP and all(propositional(x) for x in psi[1:]):
            return ctl_sat(kcur(), nf_ctl((h[0], psi)))
        psi2 = nf_atoms(psi)
        sem = Sem(kcur())
        if h[0] == 'A':
            return sem.sat(('A', ('or', psi2, ('not', FAIR))))
        return sem.sat(('E', ('and', FAIR, psi2)))

    g = remove(f)
    return ctl_sat(kcur(), nf_atoms(g))
